# -*- coding: utf-8 -*-
"""
C19 -- results depend only on the input: no hidden state, no ambient dependence (DESIGN 3.5).

System under simulation: the real CVSS2/CVSS3/CVSS4 constructors, from_rh_vector,
parse_cvss_from_text and all accessors, driven by 1-4 *caller threads* whose interleaving is decided
by the seeded scheduler (sched.py), each under its own ambient decimal context, after arbitrary
histories of successful and failing calls, under the PYTHONHASHSEED of the executing interpreter.

Oracle 1 (refinement): every op result observed inside a run equals the clean-room result of that
op (cleanroom.py: pristine process, one thread, default context, hash seed 0).
Oracle 2 (invariants, after every op completion of any thread and at the end): the library's
constant state is bit-identical to its state right after import; the thread's decimal context is
what the thread installed; decimal's module-level contexts, sys.path, warnings.filters, os.environ,
the working directory are untouched; nothing was written to stdout/stderr.

Every run executes in a forked child of the worker, so the worker itself never calls the API and a
state-corrupting defect cannot leak from one run into the next.
"""
import decimal
import hashlib
import json
import os
import sys
import warnings

from . import cleanroom, core, runner23, sched, spec, vectors
from .core import HarnessError, list_deletions, violation
from .rng import Rng, mix

PROP = "C19"
ROUNDINGS = ["ROUND_HALF_EVEN", "ROUND_CEILING", "ROUND_FLOOR", "ROUND_UP", "ROUND_DOWN", "ROUND_HALF_UP",
             "ROUND_HALF_DOWN", "ROUND_05UP"]
PRECS = [28, 28, 29, 34, 50, 100, 999]
DEFAULT_ENV = {"prec": 28, "rounding": "ROUND_HALF_EVEN"}
# bounded liveness: the largest generated run (4 threads x 6 v4 observe ops at instruction granularity)
# needs ~0.6 M pre-emption points; the cap is an order of magnitude above that
MAX_STEPS = 6000000


# ---------------------------------------------------------------------------------------------
# oracle 2: global-state snapshot
# ---------------------------------------------------------------------------------------------


def _deep(x, depth=0):
    if depth > 10:
        return "deep"
    if isinstance(x, decimal.Decimal):
        return ["D", list(x.as_tuple().digits), x.as_tuple().sign, x.as_tuple().exponent]
    if isinstance(x, float):
        return ["f", repr(x)]
    if x is None or isinstance(x, (bool, int, str)):
        return x
    if isinstance(x, bytes):
        return ["b", x.decode("latin-1")]
    if isinstance(x, dict):
        return [type(x).__name__, [[_deep(k, depth + 1), _deep(v, depth + 1)] for k, v in x.items()]]
    if isinstance(x, (list, tuple)):
        return [type(x).__name__, [_deep(v, depth + 1) for v in x]]
    if isinstance(x, (set, frozenset)):
        return [type(x).__name__, sorted(json.dumps(_deep(v, depth + 1), sort_keys=True) for v in x)]
    return ["obj", type(x).__name__]


def _is_data(v):
    import types

    return not isinstance(v, (types.ModuleType, types.FunctionType, types.BuiltinFunctionType, type, types.MethodType,
                              classmethod, staticmethod, property))


def _vacuous(v, depth=0):
    """None, an empty container, or a container of such: the shape of a not-yet-filled memo."""
    if v is None:
        return True
    if depth < 4 and isinstance(v, (dict, list, set, tuple, frozenset)):
        vals = v.values() if isinstance(v, dict) else v
        return all(_vacuous(x, depth + 1) for x in vals)
    return False


def _is_constant_name(name):
    """Public UPPER_CASE names are constants by convention; a leading underscore or lower case marks
    internal, possibly mutable state (caches, memo slots, counters)."""
    import re

    return re.match(r"^[A-Z][A-Z0-9_]*$", name) is not None


class StateGuard(object):
    """Snapshot of the library's constant tables and of the process-global state it must not touch.

    Scope of "its own constant tables" (kept narrow on purpose, so that a *correct* cache or a call
    counter is never an alarm): every name of cvss.constants2/3/4, and in the other cvss modules and on
    the three classes the public UPPER_CASE names that hold data right after import. Every other
    module-level / class-level data name (underscore-prefixed, lower case, or vacuous at import) is a
    possible memo: a change there is only counted as a probe -- an *incorrect* memo is caught by oracle 1
    through the collision families and the repeated-op histories."""

    def __init__(self):
        import cvss

        self.mods = dict((n, m) for n, m in sys.modules.items()
                         if (n == "cvss" or n.startswith("cvss.")) and m is not None)
        self.names = {}
        self.cache_names = {}
        for n, m in sorted(self.mods.items()):
            keep, caches = [], []
            for name, v in sorted(vars(m).items()):
                if name.startswith("__") or not _is_data(v):
                    continue
                if n.startswith("cvss.constants"):
                    keep.append(name)
                elif _vacuous(v) or not _is_constant_name(name):
                    caches.append(name)
                elif isinstance(v, (int, float, str, bytes, decimal.Decimal, dict, list, set, tuple, frozenset)):
                    keep.append(name)
            self.names[n] = keep
            self.cache_names[n] = caches
        self.classes = [cvss.CVSS2, cvss.CVSS3, cvss.CVSS4]
        self.class_names = {}
        for c in self.classes:
            keep = []
            for name, v in sorted(vars(c).items()):
                if name.startswith("__") or not _is_data(v) or callable(v):
                    continue
                if _vacuous(v) or not _is_constant_name(name):
                    continue
                keep.append(name)
            self.class_names[c.__name__] = keep
        self.base = self.take()
        self.base_caches = self.take_caches()

    def take(self):
        # repr() of the constant containers is C-speed, order-preserving, type-revealing
        # (Decimal('0.660') != Decimal('0.66'), 1 != 1.0 != True) and insensitive to identity
        snap = {}
        for n, names in self.names.items():
            d = vars(self.mods[n])
            for name in names:
                snap["%s.%s" % (n, name)] = repr(d[name]) if name in d else "<deleted>"
        for c in self.classes:
            d = vars(c)
            for name in self.class_names[c.__name__]:
                snap["%s.%s" % (c.__name__, name)] = repr(d[name]) if name in d else "<deleted>"
        snap["sys.path"] = repr(sys.path)
        snap["warnings.filters"] = repr(warnings.filters)
        snap["os.environ"] = repr(sorted(os.environ.items()))
        snap["os.getcwd"] = os.getcwd()
        snap["sys.getrecursionlimit"] = sys.getrecursionlimit()
        for cname in ("DefaultContext", "BasicContext", "ExtendedContext"):
            snap["decimal." + cname] = repr(ctx_tuple(getattr(decimal, cname)))
        # further process-wide settings a calculator library has no business touching (shared with the
        # import-effects check of the clean room)
        from .cleanroom import process_settings

        snap.update(process_settings())
        snap["sys.stdout/stderr identity"] = repr((id(sys.stdout), id(sys.stderr), id(sys.stdin)))
        return snap

    def rebase_streams(self):
        """The simulated stdio has just been installed: that identity is the one to preserve."""
        self.base["sys.stdout/stderr identity"] = repr((id(sys.stdout), id(sys.stderr), id(sys.stdin)))
        # the run executes in a forked child, and the random module re-seeds its global generator in
        # every forked child (os.register_at_fork): the child's state at this point is the one to preserve
        import random

        self.base["random.getstate"] = repr(hash(random.getstate()))

    def take_caches(self):
        out = {}
        for n, names in self.cache_names.items():
            d = vars(self.mods[n])
            for name in names:
                out["%s.%s" % (n, name)] = json.dumps(_deep(d.get(name)), sort_keys=True)
            for name in d:
                if not name.startswith("__") and name not in names and name not in self.names[n] and _is_data(d[name]):
                    out["%s.%s" % (n, name)] = "<new>"
        return out

    def diff(self):
        """Names whose value differs from the post-import snapshot."""
        now = self.take()
        return sorted(k for k in self.base if now.get(k) != self.base[k])

    def cache_changes(self):
        now = self.take_caches()
        return sorted(k for k in now if self.base_caches.get(k) != now[k])


def ctx_tuple(c):
    return (c.prec, c.rounding, c.Emin, c.Emax, c.capitals, c.clamp, tuple(sorted((str(k), bool(v)) for k, v in c.traps.items())))


FLAGS = ["Inexact", "Rounded", "Subnormal", "Clamped", "Underflow", "Overflow", "DivisionByZero", "InvalidOperation"]


def draw_flags(rng):
    """Sticky signal flags already raised in the caller's context before the library is called (a
    long-running process has them set most of the time). A third of the contexts carry some."""
    if not rng.chance(0.35):
        return None
    if rng.chance(0.5):
        return ["Inexact", "Rounded"]
    return sorted(f for f in FLAGS if rng.chance(0.4)) or ["Inexact"]


def make_ctx(env):
    c = decimal.Context(prec=env["prec"], rounding=getattr(decimal, env["rounding"]))
    for f in env.get("flags") or []:
        c.flags[getattr(decimal, f)] = True
    return c


# ---------------------------------------------------------------------------------------------
# workload
# ---------------------------------------------------------------------------------------------


def op_key(op):
    o = dict(op)
    o.pop("as", None)
    return json.dumps(o, sort_keys=True)


def ref_op_for(op, created):
    """The self-contained op whose clean-room result is the reference for `op`."""
    if op.get("noref"):
        return None
    if op["op"] == "observe_obj":
        src = created.get(op["obj"])
        if src is None:
            return None
        o = dict(src)
        o.pop("as", None)
        return o
    o = dict(op)
    o.pop("as", None)
    return o


def gen_ops(rng, n_ops, pool, room, p_invalid):
    """Self-contained ops over a pool of sibling strings. pool: list of (cls, how, string)."""
    ops = []
    created = []
    for _ in range(n_ops):
        r = rng.below(100)
        if ops and rng.chance(0.18):
            # the same call again (right away or after something else): what a "last value" memo, a
            # result cache filled on a failure path or a first-use side effect would need
            prev = rng.choice(ops[-3:]) if rng.chance(0.6) else rng.choice(ops)
            if prev["op"] in ("observe", "text", "cmp"):
                again = dict(prev)
                again.pop("as", None)
                ops.append(again)
                continue
        if r < 55:
            cls, how, s = rng.choice(pool)
            if rng.chance(p_invalid):
                s = vectors.edit_vector(rng, s)[1] if rng.chance(0.7) else vectors.garbage(rng)[1]
            op = {"op": "observe", "cls": cls, "how": how, "s": s}
            if rng.chance(0.3):
                op["as"] = "x%d" % len(created)
                created.append(op["as"])
            ops.append(op)
        elif r < 65 and created:
            ops.append({"op": "observe_obj", "obj": rng.choice(created)})
        elif r < 78:
            texts_pool = [s for _, how, s in pool if how == "ctor"]
            ops.append({"op": "text", "s": vectors.text_with_vectors(rng, texts_pool)})
        elif r < 88:
            a = rng.choice(pool)
            b = rng.choice(pool)
            ops.append({"op": "cmp", "a": {"cls": a[0], "how": a[1], "s": a[2]}, "b": {"cls": b[0], "how": b[1], "s": b[2]}})
        elif r < 94:
            ops.append({"op": "setctx", "prec": rng.choice(PRECS), "rounding": rng.choice(ROUNDINGS)})
            fl = draw_flags(rng)
            if fl:
                ops[-1]["flags"] = fl
        else:
            # a rejected call placed between probes
            cls = rng.choice(["CVSS2", "CVSS3", "CVSS4"])
            kind = rng.choice(["garbage", "other", "rh"])
            if kind == "garbage":
                s = vectors.garbage(rng)[1]
                ops.append({"op": "observe", "cls": cls, "how": "ctor", "s": s})
            elif kind == "other":
                ops.append({"op": "observe", "cls": cls, "how": "ctor", "s": rng.choice(pool)[2]})
            else:
                ops.append({"op": "observe", "cls": cls, "how": "rh", "s": rng.choice(["", "7.5", "x/" + rng.choice(pool)[2], "1.0/" + rng.choice(pool)[2]])})
    return ops


def build_pool(rng, room):
    """Collision families (DESIGN 3.5): siblings + their Red Hat spellings with right/wrong score."""
    pool = []
    for _ in range(rng.between(1, 3)):
        version = rng.choice(list(spec.VERSIONS))
        fam = vectors.siblings(rng, version)
        pool.extend(fam)
        # Red Hat notation of the family head with the right and with a wrong score; the right
        # score is asked from the clean room (the harness owns no score table)
        cls, _, s = fam[0]
        ref = room.eval({"op": "observe", "cls": cls, "how": "ctor", "s": s})
        if "ok" in ref:
            rh = ref["ok"]["rh"]
            pool.append((cls, "rh", rh))
            score, rest = rh.split("/", 1)
            wrong = "%.1f" % ((float(score) + 0.1) if float(score) < 10 else 9.9)
            pool.append((cls, "rh", wrong + "/" + rest))
            pool.append((cls, "rh", str(int(float(score))) + "/" + rest))
            pool.append((cls, "rh", " " + rh))
    # the corner vectors (zero impact, score 10.0, undefined groups, explicit Not Defined ...) take the
    # rare branches of the scoring code: early returns, shortcuts
    for _ in range(rng.between(0, 2)):
        version = rng.choice(list(spec.VERSIONS))
        name, body = rng.choice(vectors.CORNERS[vectors.MAJOR[version]])
        pool.append((spec.CLASS_OF[version], "ctor", spec.PREFIX[version] + body))
    return pool


FILLER_KINDS = ("new", "observe", "text", "rh")


def _junk_candidate(w):
    """Something a text scanner takes for a vector and the constructors reject (paths, URL parts)."""
    r = w.below(3)
    if r == 0:
        words = ["security", "updates", "classification", "errata", "advisories", "severity", "ratings", "cve", "kb"]
        s_ = "/" + "/".join(w.choice(words) for _ in range(w.between(3, 6))) + "/"
    elif r == 1:
        s_ = "".join(w.choice("ABCDEFGHIJKLMNOPQRSTUVWXYZabcdefghijklmnopqrstuvwxyz:/") for _ in range(w.between(26, 40)))
    else:
        version = w.choice(["2", "3.0", "3.1", "4.0"])
        s_ = vectors.edit_vector(w, vectors.valid_vector(w, version))[1]
    while len(s_) < 26:
        s_ += "/x"
    return s_


def filler_ops(w, n_fill, pool=None, focus=None, kind="new"):
    """A long history of plain calls: what a bounded cache, an eviction path or an "after N calls"
    counter needs. They carry no reference. kind "new": constructions (valid, sibling, one-edit-invalid);
    with `focus` (a version) 85 % of them are of that version's class, so that a per-class table really
    fills up. kind "observe": construction + every accessor (fills accessor-level tables). kind "text":
    parse_cvss_from_text over texts with several distinct candidates each (valid, near-valid, junk), so
    that `n_fill` counts *candidates*. kind "rh": from_rh_vector calls (right score, wrong score)."""
    fill = []
    if focus is None and w.chance(0.6):
        focus = w.choice(list(spec.VERSIONS))
    if kind == "text":
        left = n_fill
        while left > 0:
            k = min(left, w.between(2, 9))
            left -= k
            parts = []
            for _ in range(k):
                r = w.below(10)
                if r < 7:
                    version = focus if (focus in ("2", "3.0", "3.1") and w.chance(0.7)) else w.choice(["2", "2", "3.0", "3.1"])
                    v = vectors.valid_vector(w, version, corners=0.02)
                elif r < 8 and pool:
                    v = w.choice(pool)[2]
                else:
                    v = _junk_candidate(w)
                parts.append(w.choice(["", "CVE-2016-%04d " % w.below(10000), "see ", "- "]) + v)
            fill.append({"op": "text", "s": w.choice(["\n", " ", "; ", "\n\n"]).join(parts) + "\n", "noref": True})
        return fill
    if kind == "rh":
        for _ in range(n_fill):
            version = focus if (focus is not None and w.chance(0.85)) else w.choice(list(spec.VERSIONS))
            r = w.below(10)
            if r < 2 and pool:
                cls, how, s_ = w.choice(pool)
                fill.append({"op": "rh" if how == "rh" else "new", "cls": cls, "s": s_, "noref": True})
            else:
                # any score spelling in front: mostly refused with a score mismatch (the failure path), right
                # for the few vectors that score exactly that
                score = w.choice(["0.0", "5.0", "7.5", "9.8", "10.0", "4.3", "%d.%d" % (w.below(10), w.below(10))])
                fill.append({"op": "rh", "cls": spec.CLASS_OF[version], "s": score + "/" + vectors.valid_vector(w, version, corners=0.05), "noref": True})
        return fill
    ctor = "observe" if kind == "observe" else "new"

    def one(cls, s_):
        if ctor == "observe":
            return {"op": "observe", "cls": cls, "how": "ctor", "s": s_, "noref": True}
        return {"op": "new", "cls": cls, "s": s_, "noref": True}

    for _ in range(n_fill):
        r = w.below(10)
        if focus is not None and w.chance(0.85):
            fill.append(one(spec.CLASS_OF[focus], vectors.valid_vector(w, focus, corners=0.02)))
            continue
        if r < 6 or (r < 8 and not pool):
            version = w.choice(list(spec.VERSIONS))
            fill.append(one(spec.CLASS_OF[version], vectors.valid_vector(w, version, corners=0.05)))
        elif r < 8:
            cls, how, s_ = w.choice(pool)
            if how == "ctor":
                fill.append(one(cls, s_))
            else:
                fill.append({"op": "rh", "cls": cls, "s": s_, "noref": True})
        else:
            version = w.choice(list(spec.VERSIONS))
            fill.append(one(spec.CLASS_OF[version], vectors.edit_vector(w, vectors.valid_vector(w, version))[1]))
    return fill


def prologue_of(w, actors, kind):
    """Copies of calls the caller threads will make later, placed BEFORE the long history: what a table
    that forgets (or half-forgets) an early entry needs -- first use, many other entries, same call again."""
    want = {"text": ("text",), "rh": ("observe",), "new": ("observe", "cmp"), "observe": ("observe", "cmp")}[kind]
    cands = [op for a in actors for op in a["ops"] if op["op"] in want and not op.get("noref")]
    if kind == "rh":
        cands = [op for op in cands if op.get("how") == "rh"] or cands
    w.shuffle(cands)
    out = []
    for op in cands[:w.between(1, 4)]:
        o = dict(op)
        o.pop("as", None)
        o["noref"] = True
        out.append(o)
    return out


def draw_run(rng, room):
    sw = {}
    sw_rng = rng.fork("swarm")
    n_threads = sw_rng.weighted([(1, 4), (2, 4), (3, 2), (4, 1)])
    sw["threads"] = n_threads
    sw["granularity"] = "line" if n_threads == 1 else sw_rng.weighted([("line", 5), ("instruction", 1)])
    sw["sched_mode"] = sw_rng.weighted([("prob", 3), ("biased", 3), ("pct", 2)])
    sw["p"] = sw_rng.choice([0.002, 0.02, 0.2])
    sw["hot_p"] = sw_rng.choice([0.1, 0.3, 0.6])
    sw["pct_d"] = sw_rng.between(1, 3)
    sw["p_invalid"] = sw_rng.choice([0.0, 0.1, 0.3])
    sw["env_mode"] = sw_rng.weighted([("default", 2), ("per_thread", 3)])
    w = rng.fork("workload")
    pool = build_pool(w, room)
    actors = []
    env_rng = rng.fork("environment")
    if n_threads == 1:
        n_ops_each = [w.choice([3, 6, 12, 20])]
    else:
        n_ops_each = [w.choice([1, 2, 4, 6]) for _ in range(n_threads)]
    for i in range(n_threads):
        env = dict(DEFAULT_ENV)
        if sw["env_mode"] == "per_thread":
            env = {"prec": env_rng.choice(PRECS), "rounding": env_rng.choice(ROUNDINGS)}
            fl = draw_flags(env_rng)
            if fl:
                env["flags"] = fl
        actors.append({"env": env, "ops": gen_ops(w, n_ops_each[i], pool, room, sw["p_invalid"])})
    sw["long_history"] = 0
    sw["history_kind"] = None
    sw["prologue"] = 0
    if n_threads == 1 and sw_rng.chance(0.04):
        # a long history of plain calls (valid, invalid, siblings) before the probes: what a bounded
        # cache, an eviction path or an "after N calls" counter would need; the filler ops carry no
        # reference (only the probes that follow are compared with the clean room)
        n_fill = sw_rng.choice([150, 300, 700, 1500])
        kind = sw_rng.weighted([("new", 4), ("observe", 2), ("text", 3), ("rh", 2)])
        if kind == "observe":
            n_fill = min(n_fill, 700)
        sw["long_history"] = n_fill
        sw["history_kind"] = kind
        if kind == "text" and not any(op["op"] == "text" for op in actors[0]["ops"]):
            texts_pool = [s for _, how, s in pool if how == "ctor"]
            actors[0]["ops"].append({"op": "text", "s": vectors.text_with_vectors(w, texts_pool)})
        fill = filler_ops(w, n_fill, pool, kind=kind)
        pro = prologue_of(w, actors, kind) if sw_rng.chance(0.6) else []
        sw["prologue"] = len(pro)
        actors[0]["ops"] = pro + fill + actors[0]["ops"]
    sw["warmup"] = 0
    warm = []
    if sw_rng.chance(0.08):
        # the same kind of history, but BEFORE the caller threads start (a cache that is already full,
        # a table that already holds entries when the concurrent calls arrive)
        sw["warmup"] = sw_rng.choice([150, 300, 600])
        kind = sw_rng.weighted([("new", 4), ("observe", 2), ("text", 3), ("rh", 2)])
        if kind == "observe":
            sw["warmup"] = min(sw["warmup"], 300)
        sw["history_kind"] = kind
        wr = rng.fork("warmup")
        if kind == "text" and not any(op["op"] == "text" for a in actors for op in a["ops"]):
            texts_pool = [s for _, how, s in pool if how == "ctor"]
            actors[wr.below(len(actors))]["ops"].append({"op": "text", "s": vectors.text_with_vectors(wr, texts_pool)})
        pro = prologue_of(wr, actors, kind) if sw_rng.chance(0.6) else []
        sw["prologue"] = len(pro)
        warm = pro + filler_ops(wr, sw["warmup"], pool, kind=kind)
    return sw, actors, warm


# ---------------------------------------------------------------------------------------------
# execution (inside a forked child)
# ---------------------------------------------------------------------------------------------


def execute_in_child(actors, granularity, decider, refs, repo_prefix, guard, max_steps, warmup=None):
    """Runs the simulated threads; returns a JSON-able report."""
    if warmup:
        # history before the threads start: plain calls in this (single) thread, untraced, default context
        wi = runner23.Interp()
        for op in warmup:
            wi.run_op(op, capture=True)
    term = runner23.Terminal(runner23.ScriptAgent([]), max_reads=5)
    n = len(actors)
    results = [[] for _ in range(n)]
    inv = []
    probes = {}
    created = [dict() for _ in range(n)]
    mismatches = []
    s = sched.Sched(n, repo_prefix, decider, granularity=granularity if n > 1 else "none", max_steps=max_steps)

    def check_invariants(i, k, installed):
        bad = guard.diff()
        for name in bad:
            inv.append([i, k, "state:" + name, "%s differs from its value right after import" % name])
        now = ctx_tuple(decimal.getcontext())
        if now != installed:
            fields = ["prec", "rounding", "Emin", "Emax", "capitals", "clamp", "traps"]
            which = [f for f, a, b in zip(fields, now, installed) if a != b]
            inv.append([i, k, "decimal-context:" + ",".join(which),
                        "the calling thread's decimal context changed (%s): installed %r, now %r" %
                        (",".join(which), installed[:2], now[:2])])
        out = term.stdout_text()
        err = term.stderr_text()
        if out or err:
            inv.append([i, k, "writes-" + ("stdout" if out else "stderr"), "library wrote %r" % ((out or err)[:80])])
            term.pending[:] = []
            term.err[:] = []
            term.events[:] = []

    def actor_fn(i):
        def run():
            env = actors[i]["env"]
            decimal.setcontext(make_ctx(env))
            installed = ctx_tuple(decimal.getcontext())
            it = runner23.Interp()
            for k, op in enumerate(actors[i]["ops"]):
                if op["op"] == "setctx":
                    decimal.setcontext(make_ctx(op))
                    installed = ctx_tuple(decimal.getcontext())
                    results[i].append({"ok": True})
                    continue
                r = it.run_op(op, capture=False)
                results[i].append(r)
                if op["op"] == "observe" and "as" in op:
                    created[i][op["as"]] = op
                ro = ref_op_for(op, created[i])
                if ro is not None:
                    ref = refs.get(json.dumps(ro, sort_keys=True))
                    if ref is not None and ref != r and "bad" not in r:
                        mismatches.append([i, k, r, ref])
                if not op.get("noref") or k % 25 == 0:
                    check_invariants(i, k, installed)
        return run

    # file-descriptor level: this child is dedicated to the run, so fd 1 and fd 2 can be pointed at an
    # anonymous memory file; anything that bypasses sys.stdout/sys.stderr (os.write, sys.__stdout__,
    # a C extension, a logging handler bound to the original stream at import) lands there
    memfd = None
    try:
        memfd = os.memfd_create("cvsssim-fd12")
        sys.__stdout__.flush()
        sys.__stderr__.flush()
        os.dup2(memfd, 1)
        os.dup2(memfd, 2)
    except (AttributeError, OSError):
        memfd = None
    with runner23._Installed(term):
        guard.rebase_streams()
        ok = s.run([actor_fn(i) for i in range(n)])
    if memfd is not None:
        try:
            sys.__stdout__.flush()
            sys.__stderr__.flush()
        except Exception:
            pass
        size = os.lseek(memfd, 0, os.SEEK_END)
        if size:
            os.lseek(memfd, 0, os.SEEK_SET)
            data = os.read(memfd, 200)
            inv.append([-1, -1, "writes-fd", "library wrote %d byte(s) to file descriptor 1/2 bypassing sys.stdout/sys.stderr: %r" %
                        (size, data.decode("utf-8", "replace"))])
    # end-of-run invariants (main thread: its own context must be untouched too)
    final_bad = [x for x in guard.diff() if x != "sys.stdout/stderr identity"]
    for name in final_bad:
        inv.append([-1, -1, "state:" + name, "%s differs from its value right after import (end of run)" % name])
    for name in guard.cache_changes():
        probes["probe.memo_candidate_changed:" + name] = 1
    return {
        "ok": ok, "errors": s.errors, "capped": s.capped, "steps": s.step, "taken": s.taken,
        "lock_waits": s.lock_waits, "deadlocked": s.deadlocked,
        "switch_digest": runner23.digest(s.switch_log), "switches": len(s.switch_log),
        "states": sorted("|".join(t) for t in s.states)[:200],
        "same_func": s.same_func_preempt, "inv": inv, "mismatches": mismatches, "probes": probes,
        "result_digest": runner23.digest(results),
        "finished": [len(results[i]) == len(actors[i]["ops"]) for i in range(n)],
    }


def fork_run(fn):
    """Run fn() in a forked child, return its JSON-able result."""
    r, w = os.pipe()
    pid = os.fork()
    if pid == 0:
        code = 0
        try:
            os.close(r)
            try:
                res = fn()
            except BaseException:  # noqa: B902
                import traceback

                res = {"child_error": traceback.format_exc()}
            data = json.dumps(res).encode("utf-8")
            with os.fdopen(w, "wb") as f:
                f.write(data)
        except BaseException:  # noqa: B902
            code = 3
        finally:
            os._exit(code)
    os.close(w)
    chunks = []
    with os.fdopen(r, "rb") as f:
        while True:
            b = f.read(1 << 16)
            if not b:
                break
            chunks.append(b)
    _, status = os.waitpid(pid, 0)
    data = b"".join(chunks)
    if not data:
        raise HarnessError("simulation child died (status %r) without a report" % (status,))
    return json.loads(data.decode("utf-8"))


# ---------------------------------------------------------------------------------------------
# engine
# ---------------------------------------------------------------------------------------------


def diff_fields(got, ref):
    """Which part of an op result differs (for the signature)."""
    if ("exc" in got) != ("exc" in ref):
        return "accepts-vs-rejects"
    if "exc" in got:
        return "exception-class" if got["exc"][0] != ref["exc"][0] else "exception-message"
    a, b = got.get("ok"), ref.get("ok")
    if isinstance(a, dict) and isinstance(b, dict):
        prio = ["type", "scores", "severities", "clean", "clean_noprefix", "rh", "temporal_vector", "environmental_vector",
                "eq_self", "ne_str", "hash_stable"]
        keys = sorted((k for k in set(a) | set(b) if a.get(k) != b.get(k)),
                      key=lambda k: (prio.index(k) if k in prio else len(prio), k))
        if keys == ["items"]:
            ia, ib = a["items"], b["items"]
            if sorted(map(json.dumps, ia)) == sorted(map(json.dumps, ib)):
                return "list-order"
            return "items"
        names = []
        for k in keys:
            k = "as_json" if k.startswith("json_") else k
            if k not in names:
                names.append(k)
        return ",".join(names[:3]) or "?"
    return "value"


def sweep_pairs():
    """Deterministic (A, B) op pairs for the single-pre-emption sweep: B is a sibling that a shared
    slot / too-coarse key / leaked entry would confuse with A (collision families of DESIGN 3.5)."""
    v31 = "CVSS:3.1/AV:N/AC:L/PR:L/UI:R/S:C/C:H/I:L/A:H/E:F/RL:W/RC:R/CR:H/IR:M/AR:L/MAV:A/MPR:N/MS:C/MC:H"
    v30 = "CVSS:3.0" + v31[8:]
    v31b = v31.replace("/PR:L/", "/PR:H/").replace("/MC:H", "/MC:L/MI:H")
    v2a = "AV:N/AC:M/Au:S/C:P/I:C/A:P/E:F/RL:W/RC:UR/CDP:LM/TD:M/CR:H/IR:L/AR:M"
    v2b = "AV:L/AC:H/Au:M/C:C/I:N/A:C/E:U/RL:OF/RC:UC/CDP:H/TD:H/CR:L/IR:H/AR:H"
    v4a = "CVSS:4.0/AV:A/AC:H/AT:P/PR:L/UI:P/VC:L/VI:H/VA:N/SC:L/SI:N/SA:H/E:P/CR:M/IR:H/AR:L/MAV:N/MSI:S/S:P/U:Red"
    v4b = "CVSS:4.0/AV:N/AC:L/AT:N/PR:N/UI:N/VC:H/VI:H/VA:H/SC:H/SI:H/SA:H"
    v3inv = v31.replace("/C:H/", "/C:Q/")

    def ob(cls, s, how="ctor"):
        return {"op": "observe", "cls": cls, "how": how, "s": s}

    b30 = "CVSS:3.0/AV:L/AC:H/PR:H/UI:R/S:C/C:H/I:H/A:H"
    b31 = "CVSS:3.1" + b30[8:]
    b31b = "CVSS:3.1/AV:N/AC:L/PR:N/UI:N/S:C/C:L/I:N/A:N"
    b2a, b2b = "AV:N/AC:L/Au:N/C:P/I:P/A:P", "AV:L/AC:H/Au:M/C:C/I:N/A:C"
    b4a = "CVSS:4.0/AV:L/AC:H/AT:P/PR:L/UI:P/VC:H/VI:H/VA:L/SC:H/SI:H/SA:H"

    def cmp(cls, x, y):
        return {"op": "cmp", "a": {"cls": cls, "how": "ctor", "s": x}, "b": {"cls": cls, "how": "ctor", "s": y}}

    return [
        # plain base-only vectors (what most callers construct) against their closest siblings
        ("v3.0-base-only-vs-v3.1-same-body", ob("CVSS3", b30), ob("CVSS3", b31)),
        ("v3-base-only-vs-v3-base-only", ob("CVSS3", b31), ob("CVSS3", b31b)),
        ("v3-same-vector-twice-vs-sibling", cmp("CVSS3", b30, b30), ob("CVSS3", b31b)),
        ("v2-base-only-vs-v2-base-only", ob("CVSS2", b2a), ob("CVSS2", b2b)),
        ("v4-base-only-vs-v4-base-only", ob("CVSS4", b4a), ob("CVSS4", v4b)),
        ("v3.1-vs-v3.0-same-body", ob("CVSS3", v31), ob("CVSS3", v30)),
        ("v3-vs-v3-other-metrics", ob("CVSS3", v31), ob("CVSS3", v31b)),
        ("v2-vs-v2", ob("CVSS2", v2a), ob("CVSS2", v2b)),
        ("v4-vs-v4", ob("CVSS4", v4a), ob("CVSS4", v4b)),
        ("v3-vs-rejected-sibling", ob("CVSS3", v31), ob("CVSS3", v3inv)),
        ("v3-vs-v4", ob("CVSS3", v30), ob("CVSS4", v4a)),
        ("rh-vs-rh", ob("CVSS3", "7.4/" + v31, "rh"), ob("CVSS3", "10.0/CVSS:3.0/AV:N/AC:L/PR:N/UI:N/S:C/C:H/I:H/A:H", "rh")),
        # a call that is REJECTED while the other one is under way (error paths that reset or restore shared state)
        ("v2-vs-rejected-v2-missing-mandatory", ob("CVSS2", v2a), ob("CVSS2", "AV:N/AC:L/Au:N/C:P/I:P/E:F")),
        ("v4-vs-rejected-v4", ob("CVSS4", b4a), ob("CVSS4", v4b.replace("/VC:H/", "/VC:Q/"))),
        ("rh-vs-rh-score-mismatch", ob("CVSS3", "10.0/CVSS:3.0/AV:N/AC:L/PR:N/UI:N/S:C/C:H/I:H/A:H", "rh"), ob("CVSS3", "1.0/" + v31, "rh")),
        ("text-vs-text", {"op": "text", "s": "see " + v31 + " and " + v2a + " (" + v30 + ")"},
         {"op": "text", "s": v2b + "; " + v31b + " " + v2a}),
    ]


class StateEngine(object):
    prop = PROP

    def __init__(self, seed=0, force_threads=None, mode="random", granularity="line", stride=1, offset=0, coarse=1):
        self.seed = seed
        self.mode = mode
        self.sweep_granularity = granularity
        self.sweep_stride = max(1, stride)
        self.sweep_offset = offset
        self.sweep_coarse = max(1, coarse)
        self._sweep_plan = {}
        self._warm = None
        self.repo = core.repo_dir()
        self.prefix = os.path.join(self.repo, "cvss") + os.sep
        self.room = None
        self.guard = None
        self.hashseed = os.environ.get("PYTHONHASHSEED", "random")
        self.force_threads = force_threads

    def _lazy(self):
        if self.room is None:
            self.room = cleanroom.CleanRoom(self.repo)
            import cvss  # noqa: F401
            import cvss.parser  # noqa: F401

            self.guard = StateGuard()

    def refs_for(self, actors):
        want = []
        for a in actors:
            created = {}
            for op in a["ops"]:
                if op["op"] == "setctx":
                    continue
                if op["op"] == "observe" and "as" in op:
                    created[op["as"]] = op
                ro = ref_op_for(op, created)
                if ro is not None:
                    want.append(ro)
        refs = {}
        for ro, res in zip(want, self.room.eval_many(want)):
            key = json.dumps(ro, sort_keys=True)
            if "cleanroom_error" in res:
                raise HarnessError("clean room failed on %s" % key[:200])
            # what the library printed (never anything) is judged by the invariant, not here
            refs[key] = dict((k, v) for k, v in res.items() if k in ("ok", "exc"))
        return refs

    def import_run(self):
        """One extra 'run' per batch: what importing the package does to process-global state,
        observed in the pristine clean-room process (a change made at import time is invisible
        to the post-import snapshot)."""
        self._lazy()
        effects = self.room.import_effects()
        vio = [violation(PROP, "global-state", "import:" + e,
                         "importing cvss changes %s (observed in a pristine interpreter)" % e) for e in effects]
        trace = {"engine": "state", "import_check": True, "hashseed": self.hashseed, "actors": [], "granularity": "line",
                 "schedule": []}
        return {"trace": trace, "digest": runner23.digest(["import", effects]), "result_digest": runner23.digest(effects),
                "violations": vio, "counters": {"import_effect_checks": 1}, "nontrivial": False, "steps": 1,
                "sample": {"import_effects": effects}}

    # ---- single-pre-emption sweep ------------------------------------------------------
    def sweep_plan(self, granularity, pairs=None):
        """For every (pair, order): N_fine = number of pre-emption points of the *construction* of the
        first op (dry run of the construct-only variant), N = points of the whole first op when it runs
        alone. -> list of (name, first_op, second_op, N_fine, N)."""
        key = (granularity, tuple(pairs) if pairs else None)
        if key in self._sweep_plan:
            return self._sweep_plan[key]
        self._lazy()

        def points_alone(first, second):
            actors = [{"env": dict(DEFAULT_ENV), "ops": [first]}, {"env": dict(DEFAULT_ENV), "ops": [second]}]
            refs = self.refs_for(actors)
            rep = fork_run(lambda: execute_in_child(actors, granularity, sched.ReplayDecider([[0, 0]]), refs,
                                                    self.prefix, self.guard, MAX_STEPS))
            if "child_error" in rep or rep.get("errors"):
                raise HarnessError("sweep dry run failed: %s" % (rep.get("child_error") or rep.get("errors")))
            # steps 1..N belong to the first op (thread 0 runs alone until it exits at step N+1)
            return rep["taken"][1][0] - 1 if len(rep["taken"]) > 1 else 0

        plan = []
        todo = [(name, a, b, False) for name, a, b in sweep_pairs()]
        if granularity == "line":
            # the base-only pairs once more after a warm-up history of 360 distinct constructions
            todo += [(name + ":after-warm-up", a, b, True) for name, a, b in sweep_pairs()
                     if name in ("v3-base-only-vs-v3-base-only", "v2-base-only-vs-v2-base-only", "v4-base-only-vs-v4-base-only")]
        for name, a, b, warm in todo:
            if pairs and name not in pairs:
                continue
            for first, second, tag in ((a, b, "A-preempted-by-B"), (b, a, "B-preempted-by-A")):
                if warm:
                    # the warm-up does not change the number of points of the ops themselves
                    base = [p for p in plan if p[0] == name[:-len(":after-warm-up")] + ":" + tag][0]
                    plan.append((name + ":" + tag, first, second, base[3], base[4]))
                    continue
                n_total = points_alone(first, second)
                n_fine = n_total
                if first["op"] == "observe":
                    ctor = {"op": "new" if first.get("how") != "rh" else "rh", "cls": first["cls"], "s": first["s"], "noref": True}
                    n_fine = min(n_total, points_alone(ctor, second))
                plan.append((name + ":" + tag, first, second, n_fine, n_total))
        self._sweep_plan[key] = plan
        return plan

    def sweep_points(self, granularity=None, pairs=None, stride=None, offset=None, coarse=None):
        """The enumerated cases: [(plan index, k)]. Inside the construction every stride-th point,
        inside the accessor part every (stride * coarse)-th."""
        granularity = granularity or self.sweep_granularity
        stride = stride or self.sweep_stride
        offset = self.sweep_offset if offset is None else offset
        coarse = self.sweep_coarse if coarse is None else coarse
        key = ("points", granularity, tuple(pairs) if pairs else None, stride, offset, coarse)
        if key in self._sweep_plan:
            return self._sweep_plan[key]
        pts = []
        for pi, (name, first, second, n_fine, n_total) in enumerate(self.sweep_plan(granularity, pairs)):
            for k in range(1 + offset % stride, n_fine + 1, stride):
                pts.append((pi, k))
            step2 = stride * coarse
            for k in range(n_fine + 1 + offset % step2, n_total + 1, step2):
                pts.append((pi, k))
        self._sweep_plan[key] = pts
        return pts

    def sweep_size(self, **kw):
        return len(self.sweep_points(**kw))

    def run_sweep(self, index, granularity=None, pairs=None):
        granularity = granularity or self.sweep_granularity
        plan = self.sweep_plan(granularity, pairs)
        pi, k = self.sweep_points(granularity=granularity, pairs=pairs)[index]
        name, first, second, n_fine, n_total = plan[pi]
        # after the race, the two calls once more, one after the other in the thread that was pre-empted: a
        # race that leaves shared state inconsistent while both racing calls return the right values
        # (a memo written in two steps, torn by the other thread) shows only in what is computed NEXT
        post = []
        for op in (first, second):  # the pre-empted call finished last: a torn one-entry memo carries ITS key
            o = dict(op)
            o.pop("as", None)
            post.append(o)
        actors = [{"env": dict(DEFAULT_ENV), "ops": [first] + post}, {"env": dict(DEFAULT_ENV), "ops": [second]}]
        trace = {"engine": "state", "sweep_case": [name, granularity, k, n_fine, n_total], "hashseed": self.hashseed,
                 "actors": actors, "granularity": granularity, "schedule": [[0, 0], [k, 1]]}
        if ":after-warm-up:" in name:
            focus = {"CVSS2": "2", "CVSS3": "3.1", "CVSS4": "4.0"}[first.get("cls") or first["a"]["cls"]]
            if self._warm is None:
                self._warm = {}
            if focus not in self._warm:
                self._warm[focus] = filler_ops(Rng(mix(20260926, "sweep-warm-up", focus)), 360, focus=focus)
            trace["warmup"] = self._warm[focus]
        out = self._run(trace, sched.ReplayDecider(trace["schedule"]))
        out["counters"]["sweep.single_preemption_runs"] = 1
        out["counters"]["sweep.single_preemption_runs.%s" % granularity] = 1
        return out

    def run_one(self, index):
        self._lazy()
        if self.mode == "sweep":
            return self.run_sweep(index)
        if index < 0:
            return self.import_run()
        run_seed = mix(self.seed, PROP, index)
        rng = Rng(run_seed)
        sw, actors, warm = draw_run(rng, self.room)
        srng = rng.fork("schedule")
        pct = []
        if sw["sched_mode"] == "pct":
            for _ in range(sw["pct_d"]):
                # log-uniform over 1 .. ~60k steps
                e = srng.between(0, 16)
                pct.append(max(1, srng.below(1 << e) + (1 << e) // 2))
        decider = sched.SeededDecider(srng, sw["sched_mode"], p=sw["p"], pct_points=pct, hot_p=sw["hot_p"])
        trace = {"engine": "state", "run_seed": run_seed, "run_index": index, "hashseed": self.hashseed, "swarm": sw,
                 "actors": actors, "granularity": sw["granularity"], "schedule": None, "warmup": warm}
        return self._run(trace, decider)

    def execute(self, trace, shrinking=False):
        self._lazy()
        if str(trace.get("hashseed")) != str(self.hashseed):
            raise HarnessError("trace recorded under PYTHONHASHSEED=%s, this interpreter runs under %s" %
                               (trace.get("hashseed"), self.hashseed))
        if trace.get("import_check"):
            return self.import_run()
        return self._run(dict(trace), sched.ReplayDecider(trace.get("schedule") or []))

    def _run(self, trace, decider):
        actors = trace["actors"]
        refs = self.refs_for(actors)
        gran = trace["granularity"]
        warm = trace.get("warmup") or []
        rep = fork_run(lambda: execute_in_child(actors, gran, decider, refs, self.prefix, self.guard, MAX_STEPS, warm))
        if "child_error" in rep:
            raise HarnessError("simulation child failed: %s" % rep["child_error"][-1500:])
        if rep["errors"]:
            raise HarnessError("simulated thread failed inside the harness: %s" % rep["errors"][0][-1500:])
        trace["schedule"] = rep["taken"]
        vio = []
        n = len(actors)
        tag = "" if str(self.hashseed) == "0" else ":hashseed"
        for i, k, got, ref in rep["mismatches"]:
            op = actors[i]["ops"][k]
            field = diff_fields(got, ref)
            cls = op.get("cls") or (op.get("a") or {}).get("cls") or "-"
            if op["op"] == "observe_obj":
                cls = "live-object"
            vio.append(violation(PROP, "result", "%s:%s:%s%s" % (op["op"], cls, field, tag),
                                 "thread %d op %d %s: result differs from the clean-room evaluation in %s (%d thread(s), context %s, PYTHONHASHSEED=%s): got %s, clean room %s" %
                                 (i, k, short_op(op), field, n, actors[i]["env"], self.hashseed, clip(got, field, ref), clip(ref, field, got))))
        for i, k, what, msg in rep["inv"]:
            vio.append(violation(PROP, "global-state", what, "after thread %d op %d: %s" % (i, k, msg)))
        if rep.get("deadlocked"):
            vio.append(violation(PROP, "liveness", "deadlock", "a caller thread waits for ever for a lock of the library that no other thread will release"))
        elif rep["capped"] or not all(rep["finished"]):
            vio.append(violation(PROP, "liveness", "step-cap", "not all threads finished within %d steps" % MAX_STEPS))
        seen = set()
        uniq = []
        for v in vio:
            if v["sig"] not in seen:
                seen.add(v["sig"])
                uniq.append(v)
        result_digest = rep["result_digest"]
        dg = runner23.digest([result_digest, sorted(seen), rep["switch_digest"], rep["steps"]])
        nondefault_env = any(a["env"] != DEFAULT_ENV for a in actors) or any(op["op"] == "setctx" for a in actors for op in a["ops"])
        rejected_before_probe = False
        for a in actors:
            seen_rej = False
            for op in a["ops"]:
                key = json.dumps(ref_op_for(op, {}) or {}, sort_keys=True)
                if key in refs and "exc" in refs[key]:
                    seen_rej = True
                elif seen_rej and key in refs:
                    rejected_before_probe = True
        nontrivial = (n >= 2 and rep["switches"] >= 1) or nondefault_env or rejected_before_probe
        counters = {"runs": 1, "runs.threads_%d" % n: 1, "runs.granularity_%s" % (gran if n > 1 else "none"): 1,
                    "ops": sum(len(a["ops"]) for a in actors), "context_switches": rep["switches"],
                    "fault.ambient_context_nondefault": 1 if nondefault_env else 0,
                    "fault.rejected_call_before_probe": 1 if rejected_before_probe else 0,
                    "fault.ambient_context_with_sticky_flags_set": 1 if (any(a["env"].get("flags") for a in actors) or any(op.get("flags") for a in actors for op in a["ops"] if op["op"] == "setctx")) else 0,
                    "fault.setctx_between_ops": sum(1 for a in actors for op in a["ops"] if op["op"] == "setctx"),
                    "fault.long_history_before_probe": 1 if any(op.get("noref") for a in actors for op in a["ops"]) else 0,
                    "fault.warm_up_history_before_threads": 1 if warm else 0,
                    "cleanroom_refs": len(refs), "probe.thread_blocked_on_library_lock": rep.get("lock_waits", 0)}
        hist = [op for a in actors for op in a["ops"] if op.get("noref")] + list(warm)
        if hist:
            kinds = {"new": "constructions", "observe": "constructions_with_accessors", "text": "text_extractions", "rh": "red_hat_strings"}
            counters["fault.history_of_%s" % kinds.get((trace.get("swarm") or {}).get("history_kind") or "new", "constructions")] = 1
            if (trace.get("swarm") or {}).get("prologue"):
                counters["fault.probe_calls_also_made_before_the_history"] = 1
        for f, c in rep["same_func"].items():
            counters["probe.preempted_while_other_thread_in_same_function:" + f] = c
        for k2, c in rep["probes"].items():
            counters[k2] = c
        return {"trace": trace, "digest": dg, "result_digest": result_digest, "violations": uniq, "counters": counters,
                "nontrivial": nontrivial, "steps": rep["steps"],
                "sets": {"interleavings": [int(rep["switch_digest"][:15], 16)] if rep["switches"] else [],
                         "states": [int(runner23.digest(s)[:15], 16) for s in rep["states"]]},
                "sample": {"threads": n, "granularity": gran, "envs": [a["env"] for a in actors],
                           "ops": [[short_op(op) for op in a["ops"] if not op.get("noref")][:8] for a in actors],
                           "filler_constructions": sum(1 for a in actors for op in a["ops"] if op.get("noref")),
                           "schedule_head": rep["taken"][:12], "steps": rep["steps"], "switches": rep["switches"]},
                "result": rep}

    # ---- shrinking --------------------------------------------------------------------
    def trace_size(self, trace):
        n = 0
        for a in trace["actors"]:
            n += 20 * len(a["ops"]) + sum(len(json.dumps(op)) for op in a["ops"]) // 10
            n += 0 if a["env"] == DEFAULT_ENV else 5
        n += 2 * len(trace.get("schedule") or []) + 3 * len(trace.get("warmup") or [])
        n += 50 * len([a for a in trace["actors"] if a["ops"]])
        return n

    def shrink_candidates(self, trace):
        actors = trace["actors"]
        if trace.get("import_check"):
            return

        def with_(**kw):
            t = dict(trace)
            t.update(kw)
            return t

        # empty whole actors (thread ids stay stable), then drop trailing empty ones
        for i, a in enumerate(actors):
            if a["ops"]:
                yield with_(actors=[dict(x, ops=[]) if j == i else x for j, x in enumerate(actors)])
        if len(actors) > 1 and not actors[-1]["ops"]:
            yield with_(actors=actors[:-1])
        for i, a in enumerate(actors):
            for cand in list_deletions(a["ops"]):
                yield with_(actors=[dict(x, ops=cand) if j == i else x for j, x in enumerate(actors)])
        for i, a in enumerate(actors):
            if a["env"] != DEFAULT_ENV:
                yield with_(actors=[dict(x, env=dict(DEFAULT_ENV)) if j == i else x for j, x in enumerate(actors)])
        if trace.get("warmup"):
            for cand in list_deletions(trace["warmup"]):
                yield with_(warmup=cand)
        sch = trace.get("schedule") or []
        for cand in list_deletions(sch):
            yield with_(schedule=cand)
        if trace["granularity"] == "instruction":
            yield with_(granularity="line", schedule=[])
        # simplify strings
        for i, a in enumerate(actors):
            for k, op in enumerate(a["ops"]):
                if op["op"] == "text" and len(op["s"]) > 30:
                    for part in (op["s"][: len(op["s"]) // 2], op["s"][len(op["s"]) // 2:]):
                        ops = list(a["ops"])
                        ops[k] = dict(op, s=part)
                        yield with_(actors=[dict(x, ops=ops) if j == i else x for j, x in enumerate(actors)])
                if op["op"] == "observe" and op["s"].count("/") > 8:
                    version = spec.version_of_emitted(op["s"].split("/", 1)[1] if op.get("how") == "rh" and "/" in op["s"] else op["s"])
                    head = ""
                    body = op["s"]
                    if op.get("how") == "rh" and "/" in body:
                        head, body = body.split("/", 1)
                        head += "/"
                    prefix = spec.PREFIX[version] if body.startswith(spec.PREFIX[version]) else ""
                    fields = body[len(prefix):].split("/")
                    for cand in list_deletions(fields):
                        if cand and len(cand) >= len(fields) - 4:
                            ops = list(a["ops"])
                            ops[k] = dict(op, s=head + prefix + "/".join(cand))
                            yield with_(actors=[dict(x, ops=ops) if j == i else x for j, x in enumerate(actors)])


def short_op(op):
    if op["op"] == "observe":
        return "%s%s(%r)" % (op["cls"], ".from_rh_vector" if op.get("how") == "rh" else "", op["s"] if len(op["s"]) < 90 else op["s"][:87] + "...")
    if op["op"] == "text":
        return "parse_cvss_from_text(%r)" % (op["s"] if len(op["s"]) < 90 else op["s"][:87] + "...")
    if op["op"] == "cmp":
        return "cmp(%s(%r), %s(%r))" % (op["a"]["cls"], op["a"]["s"][:40], op["b"]["cls"], op["b"]["s"][:40])
    if op["op"] == "setctx":
        return "setcontext(prec=%d, %s)" % (op["prec"], op["rounding"])
    return "%s(%s)" % (op["op"], op.get("obj", ""))


def clip(res, field, other=None):
    """Readable excerpt of an op result, focused on the part that differs from `other`."""
    if "exc" in res:
        return "%s(%s)" % (res["exc"][0], res["exc"][1][:80])
    v = res.get("ok")
    if isinstance(v, dict):
        o = other.get("ok") if isinstance(other, dict) else None
        if isinstance(o, dict):
            keys = [k for k in sorted(v) if v.get(k) != o.get(k) and not k.endswith("_text")][:2]
        else:
            keys = [k for k in field.split(",") if k in v]
        if keys:
            v = dict((k, v[k]) for k in keys)
        elif "items" in v:
            v = v["items"]
    s = runner23.dumps(v)
    return s if len(s) < 260 else s[:257] + "..."


def make_engine(seed=0, force_threads=None, mode="random", granularity="line", stride=1, offset=0, coarse=1):
    return StateEngine(seed, force_threads, mode, granularity, stride, offset, coarse)

# -*- coding: utf-8 -*-
"""The registered checks: one function per claimed property (tier, t0) -> exit status."""
import os
import sys

from . import core, runner23

COMPONENTS_TERMINAL = {
    "real": ["cvss.interactive.ask_interactively", "cvss.cvss_calculator.main", "cvss.CVSS2/CVSS3/CVSS4",
             "argparse, json, input()/raw_input() of the interpreter"],
    "stub": ["terminal: sys.stdin/sys.stdout/sys.stderr (SimStdin/SimStdout, not a TTY)", "sys.argv",
             "process exit (SystemExit caught)", "the user (seeded reactive agent)"],
}


def budget(default):
    try:
        return float(os.environ.get("VERIF_BUDGET_S", "")) if os.environ.get("VERIF_BUDGET_S") else default
    except ValueError:
        return default


def scale(n):
    """VERIF_SCALE shrinks/grows run counts (used by the mutant self-test)."""
    try:
        return max(1, int(n * float(os.environ.get("VERIF_SCALE", "1"))))
    except ValueError:
        return n


# ---------------------------------------------------------------------------------------------
# C16
# ---------------------------------------------------------------------------------------------


def check_C16(tier, t0):
    from . import engine_builder as eb

    seed = core.verif_seed()
    n = scale(40000 if tier == "quick" else 3000000)
    bud = budget(120 if tier == "quick" else 1500)
    # clause e: the finite sub-sweep, enumerated completely in both tiers
    n_sweep = len(eb.sweep_cases())
    sweep, _ = core.run_batch(eb.make_engine, {"seed": seed, "mode": "sweep"}, n_sweep, 64, bud)
    agg, info = core.run_batch(eb.make_engine, {"seed": seed, "mode": "random"}, n, 1000 if tier == "quick" else 5000, bud)
    # sweep violations are reported first (index order); shift random indices behind them
    for v in agg.violations.values():
        v["index"] += n_sweep
    sweep_done = sweep.evaluations
    sweep.merge(agg)
    total = sweep
    sessions = total.counters.get("sessions", 0)
    unobs = total.counters.get("sessions.unobservable", 0)
    if sessions and unobs * 100 > sessions:
        raise core.HarnessError("%d of %d sessions unobservable (prompt format assumption '<label>: v1/v2/...' broken?)"
                                % (unobs, sessions))
    engine = eb.make_engine(seed, "random")
    extra = {
        "sweep_e": {"cases": n_sweep, "executed": sweep_done, "exhaustive": sweep_done == n_sweep,
                    "what": "every (version, metric, legal value, spelling in canonical/lower/upper, plus the empty answer for Not Defined)"},
        "faults_fired": dict((k, v) for k, v in total.counters.items() if k.startswith("fault.")),
        "probes": dict((k, v) for k, v in total.counters.items() if k.startswith("probe.")),
        "distinct_states": {"measure": "distinct session digests (configuration + full terminal event log + result)",
                            "count": len(total.digests)},
        "components": COMPONENTS_TERMINAL,
    }
    rule = ("seeded answer histories (swarm-configured mix of legal/empty/illegal/ambiguous answers, spellings, "
            "EOF / mid-line EOF faults placed inside sessions) against ask_interactively for version in "
            "{2,3.0,3.1,4.0} x {mandatory, all} x {colors}; plus the exhaustive clause-e sweep. Non-trivial = "
            "distinct session digest containing >=1 refusal, >=1 non-canonical spelling or >=1 fault.")
    assumptions = [
        "prompt format: the text written before each read ends in '<label>: v1/v2/...' (DESIGN 6.8)",
        "display names are resolved to metrics through the tree's own METRICS_ABBREVIATIONS (presentation only)",
        "legality of answers and of the returned vector is judged against /verif/spec (pinned FIRST tables)",
        "stdin is not a TTY: input() takes its readline() path; terminal line editing is not exercised",
        "field order of the returned vector is not compared (the statement does not fix it)",
    ]
    return core.finish("C16", tier, engine, total, info, t0, extra, assumptions, rule)


CHECKS = {
    "C16": check_C16,
}


def engine_for_trace(prop, trace):
    name = trace.get("engine")
    seed = core.verif_seed()
    if name == "builder":
        from . import engine_builder

        return engine_builder.make_engine(seed)
    raise core.HarnessError("no engine %r" % (name,))


def engines_of(prop):
    """(make_engine, params) list used by `digests` / the determinism self-test."""
    seed = core.verif_seed()
    if prop == "C16":
        from . import engine_builder

        return [(engine_builder.make_engine, {"seed": seed, "mode": "random"})]
    raise core.HarnessError("no engine for %r" % (prop,))


def print_digests(prop, n, first):
    """One line per run: index, digest, violation signatures. Deterministic across processes."""
    for make, params in engines_of(prop):
        eng = make(**params)
        for i in range(first, first + n):
            out = eng.run_one(i)
            sys.stdout.write("%s %d %s %s\n" % (prop, i, out["digest"], ",".join(sorted(v["sig"] for v in out["violations"]))))
    return 0

# -*- coding: utf-8 -*-
"""The registered checks: one function per claimed property (tier, t0) -> exit status."""
import os
import sys

from . import core, runner23

COMPONENTS_TERMINAL = {
    "real": ["cvss.interactive.ask_interactively", "cvss.cvss_calculator.main", "cvss.CVSS2/CVSS3/CVSS4",
             "argparse, json, input()/raw_input() of the interpreter"],
    "stub": ["terminal: sys.stdin/sys.stdout/sys.stderr (SimStdin/SimStdout, not a TTY)", "sys.argv",
             "process exit (SystemExit caught)", "the user (seeded reactive agent)"],
}


def budget(default):
    try:
        return float(os.environ.get("VERIF_BUDGET_S", "")) if os.environ.get("VERIF_BUDGET_S") else default
    except ValueError:
        return default


def scale(n):
    """VERIF_SCALE shrinks/grows run counts (used by the mutant self-test)."""
    try:
        return max(1, int(n * float(os.environ.get("VERIF_SCALE", "1"))))
    except ValueError:
        return n


# ---------------------------------------------------------------------------------------------
# C16
# ---------------------------------------------------------------------------------------------


def check_C16(tier, t0):
    from . import engine_builder as eb

    seed = core.verif_seed()
    n = scale(40000 if tier == "quick" else 3000000)
    bud = budget(120 if tier == "quick" else 1200)
    # clause e: the finite sub-sweep, enumerated completely in both tiers
    n_sweep = len(eb.sweep_cases())
    sweep, _ = core.run_batch(eb.make_engine, {"seed": seed, "mode": "sweep"}, n_sweep, 64, bud)
    # bounded sequence sweep: every answer sequence of length <= L over an 8-class alphabet at every metric
    max_len = 2 if tier == "quick" else 3
    n_seq = len(eb.seq_cases(max_len))
    seq, seq_info = core.run_batch(eb.make_engine, {"seed": seed, "mode": "seqsweep", "max_len": max_len}, n_seq, 500, bud)
    for v in seq.violations.values():
        v["index"] += n_sweep
    n_seq_done = seq.evaluations
    sweep.merge(seq)
    agg, info = core.run_batch(eb.make_engine, {"seed": seed, "mode": "random"}, n, 1000 if tier == "quick" else 5000, bud)
    # sweep violations are reported first (index order); shift random indices behind them
    for v in agg.violations.values():
        v["index"] += n_sweep + n_seq
    sweep_done = sweep.evaluations - n_seq_done
    sweep.merge(agg)
    total = sweep
    sessions = total.counters.get("sessions", 0)
    unobs = total.counters.get("sessions.unobservable", 0)
    if sessions and unobs * 100 > sessions:
        raise core.HarnessError("%d of %d sessions unobservable (prompt format assumption '<label>: v1/v2/...' broken?)"
                                % (unobs, sessions))
    engine = eb.make_engine(seed, "random")
    extra = {
        "sweep_e": {"cases": n_sweep, "executed": sweep_done, "exhaustive": sweep_done == n_sweep,
                    "what": "every (version, metric, legal value, spelling in canonical/lower/upper, plus the empty answer for Not Defined)"},
        "sequence_sweep": {"cases": n_seq, "executed": n_seq_done, "exhaustive": n_seq_done == n_seq, "max_length": max_len,
                           "what": "every answer sequence of length 1..max_length over a 13-class alphabet (legal-first, legal-last-lower, "
                                   "empty, garbage, prefix-or-doubled, other-metric-value, padded-legal, wrong-not-defined, (legal), legal., "
                                   "value name, legal + second word, legal in mixed case) served at "
                                   "every metric of every version while its question is repeated"},
        "faults_fired": dict((k, v) for k, v in total.counters.items() if k.startswith("fault.")),
        "probes": dict((k, v) for k, v in total.counters.items() if k.startswith("probe.")),
        "distinct_states": {"measure": "distinct session digests (configuration + full terminal event log + result)",
                            "count": len(total.digests)},
        "components": COMPONENTS_TERMINAL,
    }
    rule = ("seeded answer histories (swarm-configured mix of legal/empty/illegal/ambiguous answers, spellings, "
            "EOF / mid-line EOF faults placed inside sessions) against ask_interactively for version in "
            "{2,3.0,3.1,4.0} x {mandatory, all} x {colors}; plus the exhaustive clause-e sweep. Non-trivial = "
            "distinct session digest containing >=1 refusal, >=1 non-canonical spelling or >=1 fault.")
    assumptions = [
        "prompt format: the text written before each read ends in '<label>: v1/v2/...' (DESIGN 6.8)",
        "display names are resolved to metrics through the tree's own METRICS_ABBREVIATIONS (presentation only)",
        "legality of answers and of the returned vector is judged against /verif/spec (pinned FIRST tables)",
        "stdin is not a TTY: input() takes its readline() path; terminal line editing is not exercised",
        "field order of the returned vector is not compared (the statement does not fix it)",
    ]
    return core.finish("C16", tier, engine, total, info, t0, extra, assumptions, rule)


# ---------------------------------------------------------------------------------------------
# C17
# ---------------------------------------------------------------------------------------------


def check_C17(tier, t0):
    from . import engine_cli as ec

    seed = core.verif_seed()
    n = scale(40000 if tier == "quick" else 3000000)
    n_real = 1200 if tier == "quick" else 30000
    bud = budget(150 if tier == "quick" else 1200)
    params = {"seed": seed, "real_every": max(1, n // n_real)}
    n_eof = len(ec.eof_sweep_cases())
    sweep, _ = core.run_batch(ec.make_engine, {"seed": seed, "mode": "eofsweep"}, n_eof, 64, bud)
    eof_done = sweep.evaluations
    agg, info = core.run_batch(ec.make_engine, params, n, 500 if tier == "quick" else 5000, bud)
    for v in agg.violations.values():
        v["index"] += n_eof
    sweep.merge(agg)
    agg = sweep
    engine = ec.make_engine(seed, 0)
    c = agg.counters
    extra = {
        "eof_sweep": {"cases": n_eof, "executed": eof_done, "exhaustive": eof_done == n_eof,
                      "what": "interactive entry for {default,-2,-3,-4} x {mandatory,-a}: end of input at EVERY prompt index "
                              "(before the first answer .. after the last), as plain EOF and as a legal answer without newline "
                              "followed by EOF, each also right after a refused answer; every 7th case also as a real child process"},
        "faults_fired": dict((k, v) for k, v in c.items() if k.startswith("fault.")),
        "probes": dict((k, v) for k, v in c.items() if k.startswith("probe.")),
        "clauses_reached": dict((k, v) for k, v in c.items() if k.startswith("reached.")),
        "real_process_runs": c.get("real_process_runs", 0),
        "stub_vs_real_agreements": c.get("stub_vs_real_agreements", 0),
        "stub_vs_real_disagreements": c.get("stub_vs_real_disagreements", 0),
        "distinct_states": {"measure": "distinct run digests (argv + terminal event log + exit status + stderr + builder result)",
                            "count": len(agg.digests)},
        "components": COMPONENTS_TERMINAL,
    }
    rule = ("seeded command lines (shuffled subsets of -2/-3/-4, -a, -n, -j, -v/--vector/--vector= with valid, "
            "other-version, one-edit-away, empty, dash-leading, garbage and non-ASCII vectors) x seeded answer scripts "
            "with EOF / mid-line EOF faults, against main() in-process; every k-th run repeated as a real child process. "
            "Non-trivial = distinct (flag set + selected version, vector class, fault kind, prompt index of the fault, "
            "clause reached) among runs that reached clause b, c or d.")
    assumptions = [
        "expected values come from the library API of the same tree (the CLI is compared with the library, not with a table)",
        "output labels 'Base Score:', 'Temporal Score:', 'Environmental Score:', 'Cleaned vector:', 'Red Hat vector:'; JSON starts at the first line beginning with '{' (DESIGN 6.8)",
        "v2 score lines need no rating; a rating that is printed must be the library's (DESIGN 3.3 i)",
        "command lines with several version flags are informational (clause a only)",
        "the in-process stub is validated against real child processes on a sampled subset (stub_vs_real_agreements): stdin/stdout pipes under five encodings, and one pseudo-terminal for stdin+stdout+stderr (input() takes its terminal path, isatty() is true) for short printable-ASCII scripts without an unterminated last line",
        "stdin is a pipe / simulated stream, not a pseudo-terminal",
    ]
    return core.finish("C17", tier, engine, agg, info, t0, extra, assumptions, rule)


# ---------------------------------------------------------------------------------------------
# C08
# ---------------------------------------------------------------------------------------------


def check_C08(tier, t0):
    from . import engine_emit as ee

    seed = core.verif_seed()
    n = scale(30000 if tier == "quick" else 2500000)
    bud = budget(120 if tier == "quick" else 1200)
    agg, info = core.run_batch(ee.make_engine, {"seed": seed}, n, 500 if tier == "quick" else 5000, bud)
    engine = ee.make_engine(seed)
    c = agg.counters
    extra = {
        "distinct_nontrivial": len(agg.extra_sets["nontrivial_strings"]),
        "emitted_strings_validated": c.get("emitted_strings", 0),
        "pure_clause_sampled": c.get("pure_clause_sampled", 0),
        "runs_by_kind": dict((k, v) for k, v in c.items() if k.startswith("runs.")),
        "faults_fired": dict((k, v) for k, v in c.items() if k.startswith("fault.")),
        "distinct_states": {"measure": "distinct run digests (configuration / argv + terminal event log + emitted strings)",
                            "count": len(agg.digests)},
        "components": COMPONENTS_TERMINAL,
    }
    rule = ("seeded builder sessions (80% all-metrics, answers biased to defined values, EOF faults in 20%) and CLI runs "
            "(-v with vectors in random field order / random optional subsets, or interactive entry) under the simulated "
            "terminal; every vector string returned by the builder or printed on the 'Cleaned vector' / 'Red Hat vector' "
            "lines is validated (own parser accepts it; pinned official vectorString pattern of the requested version "
            "matches). Run kind 'api' only samples the pure clean_vector()/rh_vector() clause. Non-trivial = distinct "
            "emitted string with at least one optional metric carrying a defined value.")
    assumptions = [
        "the four official vectorString patterns are pinned in /verif/spec/vectorstring_patterns.json (copied verbatim from the FIRST JSON schemas)",
        "the pure clause (clean_vector()/rh_vector() over all accepted vectors) is sampled, not decided, by this family (DESIGN 3.1)",
        "prompt/label format assumptions of DESIGN 6.8",
    ]
    return core.finish("C08", tier, engine, agg, info, t0, extra, assumptions, rule)


# ---------------------------------------------------------------------------------------------
# C18
# ---------------------------------------------------------------------------------------------


def check_C18(tier, t0):
    from . import engine_hist as eh

    seed = core.verif_seed()
    n = scale(20000 if tier == "quick" else 1500000)
    bud = budget(150 if tier == "quick" else 1200)
    n_sweep = len(eh.sweep_histories())
    sweep, _ = core.run_batch(eh.make_engine, {"seed": seed, "mode": "sweep"}, n_sweep, 500, bud)
    sweep_done = sweep.evaluations
    agg, info = core.run_batch(eh.make_engine, {"seed": seed}, n, 250 if tier == "quick" else 2500, bud)
    for v in agg.violations.values():
        v["index"] += n_sweep
    sweep.merge(agg)
    agg = sweep
    engine = eh.make_engine(seed)
    c = agg.counters
    extra = {
        "enumerated_sweeps": {"cases": n_sweep, "executed": sweep_done, "exhaustive": sweep_done == n_sweep,
                              "vectors": len(eh.sweep_vectors()),
                              "what": "for every representative vector (corner cases + one defined / one Not-Defined metric per group, per version): "
                                      "every ordered pair (A,B) of accessor-call variants as A,B,A,B; and every as_json variant held x every client "
                                      "fault kind on it x every accessor-call variant afterwards"},
        "faults_fired": dict((k, v) for k, v in c.items() if k.startswith("fault.")),
        "client_faults": c.get("client_faults", 0),
        "accessor_calls_after_a_client_fault": c.get("accessor_calls_after_a_client_fault", 0),
        "fresh_twin_comparisons": c.get("fresh_twin_comparisons", 0),
        "distinct_states": {"measure": "distinct history digests (op sequence + every result)", "count": len(agg.digests)},
        "components": {"real": ["cvss.CVSS2/CVSS3/CVSS4 objects and all their public accessors", "json round trip"],
                       "stub": ["the client (seeded operation history, injected mutations of held as_json() dicts)"]},
    }
    rule = ("seeded operation histories (<= 40 ops) of a client on a pool of 1-4 live objects built from accepted vectors "
            "(same / permuted / other-version strings): accessor calls in any order, ==, hash, set membership, holding "
            "as_json() dicts, and client faults on held dicts (clear, del, junk, junk_all, add, update, popitem); after "
            "every op: no raise, equals the first result, equals a fresh twin, no aliasing with held dicts. Non-trivial = "
            "distinct (op-kind sequence x vector class) with >= 1 client fault followed by an accessor call, or >= 2 "
            "different accessors on one object.")
    assumptions = [
        "sequential histories only: concurrent accessor calls on one shared object are outside the statement (DESIGN 3.4)",
        "object-internal attributes are not part of the oracle (a lazily filled private cache is allowed while results stay equal)",
        "histories are built from vectors that are valid per /verif/spec; a rejected construction makes the history void, not a violation",
    ]
    return core.finish("C18", tier, engine, agg, info, t0, extra, assumptions, rule)


# ---------------------------------------------------------------------------------------------
# C19
# ---------------------------------------------------------------------------------------------


def _c19_batch(tier, seed, n, bud, sweeps=False):
    from . import engine_state as es

    agg, info = core.run_batch(es.make_engine, {"seed": seed}, n, 40 if tier == "quick" else 400, bud)
    engine = es.make_engine(seed)
    agg.add(-1, engine.import_run())  # import-time effects on process-global state
    if sweeps:
        # single-pre-emption sweep: for 8 sibling pairs in both orders, op A is interrupted once, at its
        # k-th pre-emption point, by a complete op B -- every k (thorough) or every stride-th k (quick)
        info["sweeps"] = {}
        for gran, stride, coarse in (("line", 1, 1 if tier == "thorough" else 4),
                                     ("instruction", 1 if tier == "thorough" else 6, 2)):
            params = {"seed": seed, "mode": "sweep", "granularity": gran, "stride": stride, "offset": seed, "coarse": coarse}
            eng = es.make_engine(**params)
            size = eng.sweep_size()
            plan = eng.sweep_plan(gran)
            if eng.room is not None:
                eng.room.close()
            sw, _ = core.run_batch(es.make_engine, params, size, 200, bud)
            for v in sw.violations.values():
                v["index"] += n
            info["sweeps"][gran] = {"pairs_x_orders": len(plan),
                                    "pre_emption_points_inside_construction": sum(p[3] for p in plan),
                                    "pre_emption_points_total": sum(p[4] for p in plan),
                                    "stride_inside_construction": stride, "stride_inside_accessors": stride * coarse,
                                    "cases": size, "executed": sw.evaluations,
                                    "exhaustive": stride == 1 and coarse == 1 and sw.evaluations == size,
                                    "exhaustive_inside_constructions": stride == 1 and sw.evaluations == size}
            agg.merge(sw)
    rep = core.report("C19", engine, agg, shrink_budget=40.0, max_shrunk=5)
    if engine.room is not None:
        engine.room.close()
    return agg, info, rep


def check_C19(tier, t0):
    import pickle
    import subprocess
    import time

    seed = core.verif_seed()
    n = scale(1500 if tier == "quick" else 30000)  # per hash seed
    bud = budget(200 if tier == "quick" else 1600)
    partial = os.environ.get("CVSSSIM_C19_PARTIAL")
    if partial:
        # child mode: one hash seed (the one this interpreter was started with)
        agg, info, rep = _c19_batch(tier, seed, n, bud)
        for v in agg.violations.values():
            v["trace"] = None
        with open(partial, "wb") as f:
            pickle.dump((agg, info, rep), f)
        return 0
    if tier == "quick":
        hashseeds = [0, 1]
    else:
        from .rng import Rng

        r = Rng(seed).fork("hashseeds")
        hashseeds = [0, 1, 2, 3, 4242, 4294967295, r.below(1 << 32), r.below(1 << 32)]
    per_seed_budget = bud / len(hashseeds)
    total, info, reports = None, None, []
    per_seed = {}
    for hs in hashseeds:
        if hs == 0:
            os.environ["VERIF_BUDGET_S"] = str(per_seed_budget)
            agg, inf, rep = _c19_batch(tier, seed, n, per_seed_budget, sweeps=True)
        else:
            path = os.path.join(core.tmp_dir(), "c19-hs%d.pickle" % hs)
            env = dict(os.environ)
            env.pop("CVSSSIM_CHILD", None)
            env.update({"VERIF_KEEP_HASHSEED": "1", "PYTHONHASHSEED": str(hs), "CVSSSIM_C19_PARTIAL": path,
                        "VERIF_BUDGET_S": str(per_seed_budget)})
            # the child's verdict lines go straight to our stdout (printed the moment they are established)
            env["VERIF_HARD_LIMIT_S"] = str(max(30.0, core.hard_deadline() - time.time() - 20.0))
            sys.stdout.flush()
            p = subprocess.run([os.path.join(core.VERIF, "check"), "C19", "--tier", tier], env=env,
                               timeout=per_seed_budget * 3 + 900)
            if p.returncode != 0 or not os.path.exists(path):
                raise core.HarnessError("C19 batch under PYTHONHASHSEED=%d failed (exit %d)" % (hs, p.returncode))
            with open(path, "rb") as f:
                agg, inf, rep = pickle.load(f)
        per_seed[str(hs)] = {"runs": agg.evaluations, "violation_signatures": len(agg.violations)}
        reports.append(rep)
        if total is None:
            total, info = agg, inf
        else:
            total.merge(agg)
            info["budget_cutoff"] = info.get("budget_cutoff") or inf.get("budget_cutoff")
    from . import engine_state as es

    engine = es.make_engine(seed)
    c = total.counters
    extra = {
        "hash_seeds": per_seed,
        "single_preemption_sweep": dict(info.get("sweeps", {}), what="16 sibling op pairs x both orders: the first op is interrupted once, at its "
                                        "k-th pre-emption point, by the complete second op, then resumes (run under PYTHONHASHSEED=0, default context)"),
        "faults_fired": dict((k, v) for k, v in c.items() if k.startswith("fault.")),
        "probes": dict((k, v) for k, v in c.items() if k.startswith("probe.")),
        "context_switches": c.get("context_switches", 0),
        "distinct_interleavings": {"measure": "distinct digests of the sequence of (step, from-thread, to-thread, function, line/offset) at which a switch actually happened",
                                   "count": len(total.extra_sets["interleavings"])},
        "distinct_states": {"measure": "distinct tuples (function each thread is in) observed at switch points",
                            "count": len(total.extra_sets["states"])},
        "runs_by_threads": dict((k, v) for k, v in c.items() if k.startswith("runs.threads_")),
        "runs_by_granularity": dict((k, v) for k, v in c.items() if k.startswith("runs.granularity_")),
        "cleanroom_reference_evaluations": c.get("cleanroom_refs", 0),
        "components": {"real": ["cvss.CVSS2/CVSS3/CVSS4 constructors and accessors", "from_rh_vector", "cvss.parser.parse_cvss_from_text",
                                "decimal arithmetic under the ambient context", "real threading.Thread objects (one runnable at a time)"],
                       "stub": ["thread scheduling (seeded baton-passing scheduler; pre-emption at line / instruction events of cvss frames)",
                                "ambient decimal context (installed per simulated caller thread)", "PYTHONHASHSEED (set per batch interpreter)",
                                "stdout/stderr (recording streams)"]},
    }
    rule = ("seeded runs of 1-4 caller threads (single-thread runs are the history dimension), each with its own ambient "
            "decimal context (8 rounding modes x prec 28..999, changed between ops), executing self-contained ops over "
            "collision families (same body under 3.0/3.1, permuted, explicit X/ND, one metric changed, case/blank twins, "
            "other class, RH right/wrong score, texts embedding them), rejected calls placed between probes; scheduler "
            "modes prob/biased/PCT at line or instruction granularity; the same run indices under every listed "
            "PYTHONHASHSEED. Non-trivial = distinct run digest with >=2 threads and >=1 switch inside a cvss frame, or a "
            "non-default ambient context, or >=1 rejected op before a probe.")
    assumptions = [
        "the clean-room result (pristine process, one thread, default context, PYTHONHASHSEED=0) of the same tree is the reference: values, exception class and message, list order",
        "hash() values are never compared across processes; decimal status flags are not part of 'the context' (DESIGN 6.2)",
        "pre-emption inside C code (_decimal, re, dict) is impossible under the GIL and not modelled",
        "names that are None or an empty container right after import are treated as possible memo caches: a change there is a probe, not a violation",
        "decimal traps / Emin / Emax are never varied (outside the statement)",
    ]
    return core.finish("C19", tier, engine, total, info, t0, extra, assumptions, rule, reports=reports)


# ---------------------------------------------------------------------------------------------
# C20
# ---------------------------------------------------------------------------------------------


def _c20_chunk(args):
    """Worker: generate items [start, stop), run them under the reference and every interpreter,
    compare. -> Aggregate"""
    seed, start, stop, real_every, interps = args
    from . import engine_xinterp as ex

    agg = core.Aggregate()
    try:
        gen = ex.Generator(seed)
        items = [gen.item(i) for i in range(start, stop)]
        wd = core.tmp_dir()
        tag = "%d-%d" % (os.getpid(), start)
        ref = ex.run_under(ex.REFERENCE, items, wd, tag + "-ref")
        if len(ref.get("results", [])) != len(items):
            agg.harness_errors.append("reference interpreter failed on items [%d,%d): %s" % (start, stop, ref.get("stderr", ref.get("runner_stderr", "?"))))
            return agg
        outs = {}
        for v, py in interps:
            outs[v] = ex.run_under(py, items, wd, tag + "-" + v)
        for k, item in enumerate(items):
            index = start + k
            rr = ref["results"][k]
            vio = []
            n_exec = 0
            for v, py in interps:
                res = outs[v].get("results", [])
                if len(res) != len(items):
                    got = {"runner_exc": ["runner-died", (outs[v].get("stderr") or outs[v].get("runner_stderr") or "")[-300:]]}
                else:
                    got = res[k]
                n_exec += 1
                for x in ex.compare(v, item, got, rr):
                    x["_trace"] = {"engine": "xinterp", "interpreter": v, "item": item, "item_index": index}
                    vio.append(x)
            counters = {"items": 1, "items." + item["k"]: 1, "executions": n_exec + 1}
            if item["k"] == "cli" and real_every and index % real_every == 0:
                rref = ex.run_real_cli(ex.REFERENCE, item)
                for v, py in interps:
                    got = ex.run_real_cli(py, item)
                    counters["real_child_processes"] = counters.get("real_child_processes", 0) + 1
                    for x in ex.compare_real(v, item, got, rref):
                        x["_trace"] = {"engine": "xinterp", "interpreter": v, "item": item, "item_index": index, "real": True}
                        vio.append(x)
            dg = runner23.digest([item, rr])
            agg.evaluations += n_exec + 1
            d = int(dg[:16], 16)
            agg.digests.add(d)
            if not (item["k"] == "api" and item["ops"][0]["op"] == "import_all") and n_exec >= 1:
                agg.nontrivial.add(d)
            agg.counters.update(counters)
            agg.steps += 1
            for x in vio:
                cur = agg.violations.get(x["sig"])
                if cur is None:
                    agg.violations[x["sig"]] = {"index": index, "trace": x["_trace"], "message": x["message"], "count": 1}
                else:
                    cur["count"] += 1
            if k == 1 and len(agg.samples) < 2:
                agg.samples.append({"item": dict((kk, vv) for kk, vv in item.items() if kk != "script"),
                                    "script": (item.get("script") or [])[:12], "reference_result_digest": dg[:16]})
    except Exception:
        import traceback

        agg.harness_errors.append("C20 chunk [%d,%d) failed: %s" % (start, stop, traceback.format_exc()))
    return agg


def check_C20(tier, t0):
    import concurrent.futures
    import multiprocessing
    import time

    from . import engine_xinterp as ex
    from . import setup_check

    seed = core.verif_seed()
    n = scale(8000 if tier == "quick" else 300000)
    bud = budget(240 if tier == "quick" else 2400)
    found = setup_check.interpreters()
    missing = [v for v in setup_check.INTERPRETERS if v not in dict(found)]
    if not os.path.exists(ex.REFERENCE):
        raise core.HarnessError("reference interpreter %s missing" % ex.REFERENCE)
    n_real = 30 if tier == "quick" else 1500
    real_every = max(1, int(n * 0.3) // n_real)  # ~30% of the items are CLI items
    chunk = 125 if tier == "quick" else 1000
    tasks = [(seed, a, min(n, a + chunk), real_every, found) for a in range(0, n, chunk)]
    total = core.Aggregate()
    info = {"planned_runs": n, "budget_cutoff": False, "workers": core.jobs()}
    ctx = multiprocessing.get_context("fork")
    with concurrent.futures.ProcessPoolExecutor(max_workers=core.jobs(), mp_context=ctx) as pool:
        pending = list(tasks)
        live = set()
        while pending or live:
            while pending and len(live) < core.jobs() * 2:
                if time.time() - t0 > bud:
                    info["budget_cutoff"] = True
                    pending = []
                    break
                live.add(pool.submit(_c20_chunk, pending.pop(0)))
            if not live:
                break
            done, live = concurrent.futures.wait(live, timeout=1200, return_when=concurrent.futures.FIRST_COMPLETED)
            if not done:
                raise core.HarnessError("no C20 chunk finished within 1200 s")
            for f in done:
                total.merge(f.result())
    engine = ex.make_engine(seed)
    c = total.counters
    extra = {
        "interpreters": {"reference": "/venv/bin/python (3.12.1)", "executed": [v for v, _ in found], "skipped_missing": missing},
        "items": c.get("items", 0),
        "items_by_kind": dict((k, v) for k, v in c.items() if k.startswith("items.")),
        "real_child_processes": c.get("real_child_processes", 0),
        "distinct_states": {"measure": "distinct (item, reference result) digests", "count": len(total.digests)},
        "components": {"real": ["the whole cvss package under each interpreter", "argparse/json/decimal/input() of each interpreter",
                                "real `python -m cvss.cvss_calculator` child processes (sampled)"],
                       "stub": ["terminal and argv (runner23 SimStdin/SimStdout) for the in-process items", "the user (recorded answer scripts)"]},
    }
    rule = ("seeded items recorded under the reference interpreter -- API items (construct-and-observe valid / near-valid / invalid / "
            "non-ASCII strings of every version, Red Hat notation, text extraction), builder sessions and CLI runs with their "
            "recorded answer scripts and EOF faults, plus one import/compile record -- replayed by runner23 under each of the 9 "
            "interpreters and diffed against /venv's 3.12; a sampled subset of CLI items also as real child processes. "
            "evaluations = item executions (all interpreters + reference). Non-trivial = distinct item digest executed on >= 2 "
            "interpreters whose reference result is not the import/compile record.")
    assumptions = [
        "the interpreters are those under /root/.pyenv/versions; a missing non-reference interpreter is reported as skipped, not as a violation",
        "other interpreters are exercised single-threaded on sampled inputs (line events are not comparable across interpreter versions)",
        "`!=` between objects and hash() values are not compared (not in the statement's list); text types (py2 str/unicode) are normalised",
        "in-process items pass argv/stdin to Python 2 as UTF-8 bytes, which is what the OS hands a 2.7 process",
    ]
    return core.finish("C20", tier, engine, total, info, t0, extra, assumptions, rule, shrink_budget=60.0, max_shrunk=8)


CHECKS = {
    "C08": check_C08,
    "C16": check_C16,
    "C17": check_C17,
    "C18": check_C18,
    "C19": check_C19,
    "C20": check_C20,
}


def engine_for_trace(prop, trace):
    name = trace.get("engine")
    seed = core.verif_seed()
    if name == "builder":
        from . import engine_builder

        return engine_builder.make_engine(seed)
    if name == "emit":
        from . import engine_emit

        return engine_emit.make_engine(seed)
    if name == "hist":
        from . import engine_hist

        return engine_hist.make_engine(seed)
    if name == "state":
        from . import engine_state

        return engine_state.make_engine(seed)
    if name == "cli":
        from . import engine_cli

        return engine_cli.make_engine(seed)
    if name == "xinterp":
        from . import engine_xinterp

        return engine_xinterp.make_engine(seed)
    raise core.HarnessError("no engine %r" % (name,))


def engines_of(prop):
    """(make_engine, params) list used by `digests` / the determinism self-test."""
    seed = core.verif_seed()
    if prop == "C16":
        from . import engine_builder

        return [(engine_builder.make_engine, {"seed": seed, "mode": "random"})]
    if prop == "C08":
        from . import engine_emit

        return [(engine_emit.make_engine, {"seed": seed})]
    if prop == "C18":
        from . import engine_hist

        return [(engine_hist.make_engine, {"seed": seed})]
    if prop == "C19":
        from . import engine_state

        return [(engine_state.make_engine, {"seed": seed})]
    if prop == "C20":
        return [(_C20GenDigest, {"seed": seed})]
    if prop == "C17":
        from . import engine_cli

        return [(engine_cli.make_engine, {"seed": seed, "real_every": 0})]
    raise core.HarnessError("no engine for %r" % (prop,))


class _C20GenDigest(object):
    """Determinism self-test adapter: the digest of the i-th generated C20 item (what is executed
    under the interpreters is a pure function of that item)."""

    def __init__(self, seed=0):
        from . import engine_xinterp

        self.gen = engine_xinterp.Generator(seed)

    def run_one(self, i):
        return {"digest": runner23.digest(self.gen.item(i)), "violations": []}


def print_digests(prop, n, first):
    """One line per run: index, digest, violation signatures. Deterministic across processes."""
    for make, params in engines_of(prop):
        eng = make(**params)
        for i in range(first, first + n):
            out = eng.run_one(i)
            # verdict digest first (results + violations); the full event-log digest last
            sys.stdout.write("%s %d %s %s %s\n" % (prop, i, out.get("result_digest", out["digest"]),
                                                  ",".join(sorted(v["sig"] for v in out["violations"])) or "-", out["digest"]))
    return 0

# -*- coding: utf-8 -*-
"""Command dispatch for /verif/check."""
import argparse
import json
import os
import sys
import time
import traceback

from . import core


def _registry():
    from . import checks

    return checks.CHECKS


def do_replay(prop, path, verify):
    from . import checks

    with open(path) as f:
        trace = json.load(f)
    if trace.get("format") != core.TRACE_FORMAT:
        raise core.HarnessError("%s is not a %s file" % (path, core.TRACE_FORMAT))
    if trace.get("property") != prop:
        raise core.HarnessError("%s is a replay file of %s, not %s" % (path, trace.get("property"), prop))
    hs = trace.get("hashseed")
    if hs is not None and str(hs) != os.environ.get("PYTHONHASHSEED"):
        # the trace was recorded under another hash seed: re-execute under that one
        env = dict(os.environ)
        env.pop("CVSSSIM_CHILD", None)
        env["VERIF_KEEP_HASHSEED"] = "1"
        env["PYTHONHASHSEED"] = str(hs)
        sys.stdout.flush()
        os.execve(os.path.join(core.VERIF, "check"), [os.path.join(core.VERIF, "check")] + sys.argv[1:], env)
    if trace.get("hang"):
        core.attach_repo()
        out = core.execute_trace(None, trace)
    else:
        engine = checks.engine_for_trace(prop, trace)
        out = engine.execute(trace)
    expect = trace.get("expect", {})
    sigs = [v["sig"] for v in out["violations"]]
    print("replay %s: engine=%s digest=%s" % (path, trace.get("engine"), out["digest"]))
    for v in out["violations"]:
        print("violation: %s -- %s" % (v["sig"], v["message"]))
    known = core.load_known(prop)
    live = [s for s in sigs if core.match_known(known, s) is None]
    if expect.get("signature") in sigs:
        same = out["digest"] == expect.get("digest")
        print("REPLAY-REPRODUCED signature=%s digest_identical=%s" % (expect["signature"], "yes" if same else "NO"))
        if verify and not same:
            print("expected digest %s" % expect.get("digest"))
            return 2
        if expect["signature"] in live or verify:
            print("VIOLATION property=%s replay=%s" % (prop, path))
            return 1
        print("KNOWN-FINDING: property=%s %s" % (prop, core.match_known(known, expect["signature"])))
        if not live:
            return 0
    if live:
        print("VIOLATION property=%s replay=%s" % (prop, path))
        return 1
    print("replay: the recorded violation does not occur on this tree")
    return 0


def main(argv):
    ap = argparse.ArgumentParser(prog="check")
    ap.add_argument("what")
    ap.add_argument("rest", nargs="*")
    ap.add_argument("--tier", default=os.environ.get("VERIF_TIER") or "quick", choices=["quick", "thorough"])
    ap.add_argument("--replay")
    ap.add_argument("--verify", action="store_true")
    ap.add_argument("--n", type=int, default=200)
    ap.add_argument("--first", type=int, default=0)
    args = ap.parse_args(argv)
    t0 = time.time()
    os.environ.pop("CVSSSIM_TMP", None)  # every invocation owns (and removes) its own scratch directory
    core._tmp_base()
    try:
        if args.what == "setup":
            from . import setup_check

            return setup_check.main()
        if args.what == "selftest-determinism":
            from . import selftest

            return selftest.determinism(args.rest, args.n)
        if args.what == "selftest-benign":
            from . import selftest

            return selftest.benign(args.rest)
        if args.what == "selftest-seeded":
            from . import selftest

            return selftest.seeded(args.rest, args.tier)
        if args.what == "selftest-mutants":
            from . import selftest

            return selftest.mutants(args.rest, args.tier)
        core.attach_repo()
        reg = _registry()
        if args.what == "digests":
            from . import checks

            return checks.print_digests(args.rest[0], args.n, args.first)
        if args.what not in reg:
            print("HARNESS-ERROR unknown check %r (have: %s)" % (args.what, ", ".join(sorted(reg))))
            return 2
        if args.replay:
            return do_replay(args.what, args.replay, args.verify)
        os.environ["VERIF_TIER_EFFECTIVE"] = args.tier
        print("check %s tier=%s VERIF_SEED=%d repo=%s jobs=%d" %
              (args.what, args.tier, core.verif_seed(), core.repo_dir(), core.jobs()))
        sys.stdout.flush()
        return reg[args.what](args.tier, t0)
    except core.HarnessError as e:
        print("HARNESS-ERROR %s" % (e,))
        return 2
    except Exception:
        print("HARNESS-ERROR unexpected exception in the harness:\n%s" % traceback.format_exc())
        return 2
    finally:
        core.cleanup_tmp()

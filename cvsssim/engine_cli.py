# -*- coding: utf-8 -*-
"""
C17 -- the command-line calculator as a simulated process (DESIGN 3.3).

System under simulation: the real cvss.cvss_calculator.main() (argparse, dispatch, printing) with the
real builder and classes behind it.  Simulated: argv, stdin (seeded reactive user agent + EOF
faults), stdout, stderr, process exit; the value the builder hands to the CLI is observed through
the module attribute (seam S4).  A sampled subset of runs is executed a second time as a real child
process (`python -m cvss.cvss_calculator`, stdin a pipe closed after the script) and must agree.
"""
import json
import os
import subprocess
import sys
from collections import OrderedDict

from . import core, engine_builder, runner23, spec, vectors
from .core import list_deletions, violation
from .rng import Rng, mix

PROP = "C17"
MAX_READS = 400

SELECTED = {None: "3.1", "-2": "2", "-3": "3.0", "-4": "4.0"}
SCORE_LABELS = ["Base Score", "Temporal Score", "Environmental Score"]


def draw_case(rng, seed_rng_agent=None):
    """A command line + what it means. -> dict (JSON-able)."""
    vflag = rng.weighted([(None, 4), ("-2", 3), ("-3", 2), ("-4", 3)])
    flags = [vflag] if vflag else []
    informational = False
    if rng.chance(0.03):
        extra = rng.choice(["-2", "-3", "-4"])
        flags.append(extra)
        informational = True  # several version flags: no defined "selected version"
    selected = SELECTED[vflag]
    groups = [[f] for f in flags]
    opts = {}
    for key, forms, p in (("a", ["-a", "--all"], 0.4), ("n", ["-n", "--no-colors"], 0.5), ("j", ["-j", "--json"], 0.5)):
        opts[key] = rng.chance(p)
        if opts[key]:
            groups.append([rng.choice(forms)])
    mode = rng.weighted([("vector", 6), ("interactive", 3), ("empty_vector", 1)])
    vclass, vec = None, None
    if mode == "vector":
        ver = selected if selected not in ("3.0", "3.1") else rng.choice(["3.0", "3.1"])
        vclass, vec = vectors.any_vector(rng, ver, p_valid=0.6)
        if rng.chance(0.04):
            vclass, vec = "dash", rng.choice(["-x", "-2", "--json", "-", "---", "-AV:N"])
        elif rng.chance(0.04):
            # first characters an argument parser may give a meaning to (argument files, alternative
            # option prefixes, option/value separators): for the calculator they are just text
            lead = rng.choice(["@", "@", "@", "+", "=", "^", "~", "%", "!", "#"])
            rest = rng.choice(["", "foo", "/dev/null", "x", vec if vec else "AV:N"])
            vclass, vec = "special-lead", lead + rest
        if vec == "":
            mode = "empty_vector"
    if mode == "empty_vector":
        vclass, vec = "empty", ""
    if vec is not None:
        if vec.startswith("-"):
            form = "eq"
        elif vec == "":
            form = rng.choice(["short", "long", "eq"])
        elif vec.startswith("="):
            # `-v=X` is argparse's own spelling of `-v X`: glued to the short option, a leading "=" is syntax
            form = rng.choice(["short", "long", "eq"])
        else:
            form = rng.choice(["short", "long", "eq", "glued"])
        if form == "short":
            groups.append(["-v", vec])
        elif form == "long":
            groups.append(["--vector", vec])
        elif form == "eq":
            groups.append(["--vector=" + vec])
        else:
            groups.append(["-v" + vec])
    rng.shuffle(groups)
    if rng.chance(0.3):
        groups = respell(rng.fork("respell"), groups, vec)
    argv = [t for g in groups for t in g]
    case = decode_argv(argv)
    return {"argv": argv, "selected": case["selected"], "flags": opts, "vclass": vclass, "vector": vec,
            "interactive": not vec, "informational": case["informational"]}


LONG_OPTIONS = ("all", "vector", "no-colors", "json")  # distinct first letters: every non-empty prefix is unique
SHORT_BOOL = "234anj"


def respell(rng, groups, vec):
    """Other spellings of the same command line that every argument parser following the POSIX / GNU
    conventions accepts: single-letter flags combined behind one dash (-aj, -2n, -jv VECTOR, -ajvVECTOR),
    a flag given twice, and -- as a separate, more leniently judged class -- unique abbreviations of
    the long options (--vec X, --js) and a second -v whose value must win (the last one counts).
    The groups keep their order."""
    kinds = rng.weighted([(("combine",), 5), (("repeat",), 2), (("abbrev",), 3), (("combine", "repeat"), 2),
                          (("combine", "abbrev"), 2), (("decoy",), 1)])
    out = [list(g) for g in groups]
    if "abbrev" in kinds:
        for g in out:
            t = g[0]
            if t.startswith("--"):
                name, eq, val = t[2:].partition("=")
                if name in LONG_OPTIONS and rng.chance(0.8):
                    cut = 1 + rng.below(len(name) - 1) if len(name) > 1 else 1
                    g[0] = "--" + name[:cut] + eq + val
    if "repeat" in kinds:
        bools = [i for i, g in enumerate(out) if len(g) == 1 and (g[0] in ("-2", "-3", "-4", "-a", "-n", "-j", "--all", "--no-colors", "--json"))]
        if bools:
            i = rng.choice(bools)
            same = out[i][0]
            alt = {"--all": "-a", "-a": "--all", "--no-colors": "-n", "-n": "--no-colors", "--json": "-j", "-j": "--json"}.get(same, same)
            out.insert(rng.below(len(out) + 1), [rng.choice([same, alt])])
    if "decoy" in kinds and vec is not None:
        # an earlier -v that the real one overrides
        decoy = rng.choice(["AV:N", "CVSS:3.1/AV:N/AC:L/PR:N/UI:N/S:U/C:H/I:H/A:H", "zzz", "CVSS:4.0/AV:N"])
        idx = [i for i, g in enumerate(out) if g[0] in ("-v", "--vector") or g[0].startswith("--vector=") or (g[0].startswith("-v") and g[0] not in ("-v",))]
        if idx:
            out.insert(rng.below(idx[0] + 1), rng.choice([["-v", decoy], ["--vector=" + decoy], ["-v" + decoy]]))
    if "combine" in kinds:
        merged = []
        for g in out:
            t = g[0]
            short_bool = len(g) == 1 and len(t) == 2 and t[0] == "-" and t[1] in SHORT_BOOL
            short_vec = t == "-v" or (t.startswith("-v") and not t.startswith("-v="))
            prev = merged[-1] if merged else None
            prev_open = prev is not None and prev[-1] and len(prev) == 1 and re_match_bools(prev[0])
            if prev_open and (short_bool or short_vec) and rng.chance(0.75):
                if short_bool:
                    prev[0] += t[1]
                else:
                    merged[-1] = [prev[0] + t[1:]] + g[1:]
                continue
            merged.append(g)
        out = merged
    return out


def re_match_bools(tok):
    return len(tok) >= 2 and tok[0] == "-" and all(c in SHORT_BOOL for c in tok[1:])


def decode_argv(argv):
    """What a command line means, recomputed from argv alone (so that replay files and shrunk
    candidates are judged without trusting generator annotations).  Follows the conventions argparse
    implements on all ten interpreters (checked: combined short flags, value glued to / following a
    combined group, `-v=X`, unique prefixes of long options, the last -v wins)."""
    vflags = []
    opts = {"a": False, "n": False, "j": False}
    vecs = []
    abbrev = False
    i = 0
    while i < len(argv):
        t = argv[i]
        if t.startswith("--") and len(t) > 2:
            name, eq, val = t[2:].partition("=")
            full = [o for o in LONG_OPTIONS if o.startswith(name)]
            if len(full) == 1:
                if full[0] != name:
                    abbrev = True
                if full[0] == "vector":
                    if eq:
                        vecs.append(val)
                    else:
                        i += 1
                        vecs.append(argv[i] if i < len(argv) else None)
                elif full[0] == "all":
                    opts["a"] = True
                elif full[0] == "no-colors":
                    opts["n"] = True
                else:
                    opts["j"] = True
        elif t.startswith("-") and len(t) > 1:
            k = 1
            while k < len(t):
                c = t[k]
                if c in "234":
                    vflags.append("-" + c)
                elif c in "anj":
                    opts[c] = True
                elif c == "v":
                    rest = t[k + 1:]
                    if rest:
                        # `-v=X` is argparse's own spelling of `-v X` (behind a combined group the
                        # interpreters disagree about the "=": such command lines are never generated)
                        vecs.append(rest[1:] if rest.startswith("=") and k == 1 else rest)
                    else:
                        i += 1
                        vecs.append(argv[i] if i < len(argv) else None)
                    break
                else:
                    break
                k += 1
        i += 1
    vec = vecs[-1] if vecs else None
    informational = len(set(vflags)) > 1
    selected = SELECTED[vflags[0] if vflags else None]
    if informational:
        # what main() does with several version flags is its own business (fixed order 2, 3, 4 on this tree)
        selected = SELECTED[sorted(set(vflags))[0]]
    return {"selected": selected, "flags": opts, "vector": vec, "interactive": not vec, "informational": informational,
            "abbrev": abbrev, "vector_options": len(vecs)}


def builder_major(call):
    """Major CVSS version the CLI asked the builder for (first positional or `version=`), or None."""
    try:
        pos = call["args"][1]
        v = None
        if pos:
            v = pos[0]
        else:
            for k, val in call["kwargs"][1]:
                if k == "version":
                    v = val
        if v is None:
            return 3  # the builder's own default is 3.1
        if isinstance(v, list):
            v = v[1]
        return int(float(v))
    except Exception:
        return None


_SCORE_RE = None


def parse_stdout(stdout):
    """Label-addressed view of what the CLI printed. Labels are matched case-insensitively, spacing and
    the separator (':' or '=') are free (DESIGN 6.8); the JSON document is the first '{' from which a
    JSON object parses, wherever on its line it starts."""
    import re

    global _SCORE_RE
    if _SCORE_RE is None:
        _SCORE_RE = {
            "score": re.compile(r"^\s*(base|temporal|environmental)\s+score\s*[:=]\s*(.*)$", re.I),
            "clean": re.compile(r"^\s*clean(?:ed)?\s+vector\s*[:=]\s*(.*)$", re.I),
            "rh": re.compile(r"^\s*red\s*hat\s+vector\s*[:=]\s*(.*)$", re.I),
        }
    lines = stdout.split("\n")
    view = {"scores": {}, "clean": None, "rh": None, "json_text": None, "json_doc": None, "json_label": False, "lines": lines,
            "labels_found": 0}
    canon_label = {"base": "Base Score", "temporal": "Temporal Score", "environmental": "Environmental Score"}
    offset = 0
    view["last_label_offset"] = -1
    view["json_offset"] = -1
    for k, line in enumerate(lines):
        if _SCORE_RE["score"].match(line) or _SCORE_RE["clean"].match(line) or _SCORE_RE["rh"].match(line):
            view["last_label_offset"] = offset
        offset += len(line) + 1
        m = _SCORE_RE["score"].match(line)
        if m:
            view["labels_found"] += 1
            view["scores"].setdefault(canon_label[m.group(1).lower()], []).append(m.group(2).split())
        m = _SCORE_RE["clean"].match(line)
        if m:
            view["labels_found"] += 1
            view["clean"] = m.group(1).strip() if view["clean"] is None else ["dup"]
        m = _SCORE_RE["rh"].match(line)
        if m:
            view["labels_found"] += 1
            view["rh"] = m.group(1).strip() if view["rh"] is None else ["dup"]
        if "json" in line.lower() and "{" not in line:
            view["json_label"] = True
    dec = json.JSONDecoder(object_pairs_hook=OrderedDict)
    pos = stdout.find("{")
    while pos >= 0:
        try:
            doc, end = dec.raw_decode(stdout, pos)
            if isinstance(doc, dict):
                view["json_doc"] = doc
                view["json_text"] = stdout[pos:end]
                view["json_offset"] = pos
                break
        except ValueError:
            if view["json_text"] is None:
                view["json_text"] = stdout[pos:]  # something that starts like JSON but does not parse
        pos = stdout.find("{", pos + 1)
    return view


RATING_WORDS = ("None", "Low", "Medium", "High", "Critical")


def score_token_ok(tok, score):
    """'7.5', or '7.5' with a unit / punctuation glued to it ('7.5/10', '7.5,'), never '7.55' or '17.5'."""
    s = str(score)
    if tok == s:
        return True
    return tok.startswith(s) and not (tok[len(s)].isdigit() or tok[len(s)] == ".")


def vector_token_ok(printed, want):
    """The printed value is the library's string, possibly followed by further columns."""
    if printed == want:
        return True
    if not isinstance(printed, str) or not printed:
        return False
    return printed.split()[0] == want


def result_text(res):
    """What the CLI printed after the last read (the report, without the interactive dialogue)."""
    chunks = []
    for ev in res.get("events", []):
        if ev[0] == "r":
            chunks = []
        elif ev[0] == "o":
            chunks.append(ev[1])
    return "".join(chunks) if res.get("events") else res.get("stdout", "")


def looks_like_crash(text):
    """stderr text that the statement forbids: a traceback or a Python warning."""
    import re

    return ("Traceback (most recent call last)" in text or re.search(r"\w+Warning: ", text) is not None or
            re.search(r"^\w*(Error|Exception): ", text, re.M) is not None)


def builder_version_string(call):
    """'2' / '3.0' / '3.1' / '4.0' as the CLI asked the builder for it (None if unrecognised)."""
    try:
        pos = call["args"][1]
        v = pos[0] if pos else None
        if v is None:
            for k, val in call["kwargs"][1]:
                if k == "version":
                    v = val
        if v is None:
            return "3.1"
        f = float(v[1]) if isinstance(v, list) else float(v)
        return {2.0: "2", 3.0: "3.0", 3.1: "3.1", 4.0: "4.0"}.get(f)
    except Exception:
        return None


def builder_all_flag(call, default):
    try:
        pos = call["args"][1]
        if len(pos) > 1:
            return bool(pos[1])
        for k, val in call["kwargs"][1]:
            if k == "all_metrics":
                return bool(val)
    except Exception:
        pass
    return default


def judge(case_argv, res, ctors, labels=None):
    """All C17 clauses on one recorded run. -> (violations, info)."""
    case = decode_argv(case_argv)
    vio = []
    info = {"reached": None, "eof": False, "fault_index": None}
    sel = case["selected"]
    eof_reads = [i for i, ev in enumerate([e for e in res["events"] if e[0] == "r"]) if ev[1] == "e"]
    if eof_reads:
        info["eof"] = True
        info["fault_index"] = eof_reads[0]
    if case["abbrev"] and res["exit"] == 2 and res["exc"] is None and "usage" in (res["stderr"] + res["stdout"]).lower():  # (on a pseudo-terminal the two are one stream)
        # an abbreviated long option (--vec, --js) is a convenience of the argument parser, not one of the
        # spellings the statement names: a parser that refuses it with a usage message is within the
        # statement; one that accepts it is held to everything below
        info["reached"] = "abbreviation-refused"
        return vio, info
    # ---- clause a: clean exit ----
    if res["aborted"]:
        vio.append(violation(PROP, "a", "no-termination", "calculator %s%s" %
                             (res.get("abort_reason") or ("still reading after %d reads" % res["reads"]),
                              " (after end of input)" if info["eof"] else "")))
        return vio, info
    if res["exc"] is not None:
        vio.append(violation(PROP, "a", "exception-escapes:%s" % res["exc"][0],
                             "%s escaped main(): %s  [argv=%r]" % (res["exc"][0], res["exc"][1][:160], case_argv)))
    elif res["exit"] != 0:
        vio.append(violation(PROP, "a", "exit-status:%s" % (res["exit"],),
                             "exit status %r, stderr %r  [argv=%r]" % (res["exit"], res["stderr"][:160], case_argv)))
    if res.get("main_returned") not in (None, 0) and not vio:
        vio.append(violation(PROP, "a", "main-returns-nonzero",
                             "main() returned %r, which the installed console script (sys.exit(main())) turns into a non-zero exit status / a message on stderr [argv=%r]"
                             % (res.get("main_returned"), case_argv)))
    if res["stderr"] and not vio and looks_like_crash(res["stderr"]):
        vio.append(violation(PROP, "a", "traceback-or-warning-on-stderr", "stderr: %r  [argv=%r]" % (res["stderr"][-300:], case_argv)))
    if vio or case["informational"] or case["vector_options"] > 1:
        # several version flags / several -v: no defined selection, clause a only
        return vio, info
    report = result_text(res)
    view = parse_stdout(report)
    has_scores = bool(view["scores"]) or view["clean"] is not None or view["rh"] is not None or view["json_doc"] is not None
    # ---- which vector was scored ----
    if case["interactive"]:
        calls = res["builder_calls"]
        if len(calls) != 1:
            vio.append(violation(PROP, "e", "builder-calls:%d" % len(calls),
                                 "interactive entry expected, builder called %d times [argv=%r]" % (len(calls), case_argv)))
            return vio, info
        asked_major = builder_major(calls[0])
        if asked_major is not None and asked_major != int(float(sel)):
            vio.append(violation(PROP, "e", "builder-version:%s:%s" % (sel, asked_major),
                                 "selected CVSS v%s but the interactive questions are those of v%s [argv=%r]" %
                                 (sel, asked_major, case_argv)))
        # ---- clause g: the vector that is scored is the one the answers determine ----
        # (the C16 reference model applied to the dialogue seen through the CLI; a defect of the
        # builder is a defect of interactive entry whichever door the user came in by)
        bver = builder_version_string(calls[0])
        ball = case["flags"]["a"]  # what the user asked for (-a / --all), not what the CLI passed on
        if labels is not None and bver in labels:
            bitem = {"version": bver, "all": ball}
            bres = {"events": res["events"], "returned": calls[0]["returned"], "exc": calls[0].get("exc"),
                    "aborted": False, "reads": res["reads"], "returned_is_text": isinstance(calls[0]["returned"], str)}
            bvio, _ = engine_builder.judge(bitem, bres, labels[bver], ctors[spec.CLASS_OF[bver]])
            for v in bvio:
                detail = v["sig"].split(":", 2)[2]
                vio.append(violation(PROP, "g", "interactive-entry:" + detail,
                                     "interactive entry through the CLI [argv=%r]: %s" % (case_argv, v["message"])))
        vector = calls[0]["returned"]
        if info["eof"] or vector is None:
            # ---- clause d: end of input ends the program cleanly ----
            info["reached"] = "d"
            if res["reads_after_eof"]:
                vio.append(violation(PROP, "d", "reads-after-eof", "%d further read(s) after end of input" % res["reads_after_eof"]))
            if has_scores and vector is None:
                vio.append(violation(PROP, "d", "output-after-eof", "score/vector lines printed although input ended early"))
            if vector is None:
                return vio, info
        if not isinstance(vector, str):
            return vio, info
    else:
        if res["builder_calls"]:
            vio.append(violation(PROP, "e", "asked-despite-vector", "-v given but the builder was called [argv=%r]" % (case_argv,)))
            return vio, info
        if res["reads"]:
            vio.append(violation(PROP, "e", "read-despite-vector", "-v given but stdin was read [argv=%r]" % (case_argv,)))
        vector = case["vector"]
    # ---- what the library says about this vector (same tree) ----
    ctor = ctors[spec.CLASS_OF[sel]]
    from cvss.exceptions import CVSSError

    try:
        obj = ctor(vector)
    except CVSSError as e:
        # ---- clause c: the library's message, and nothing that looks like a result ----
        info["reached"] = info["reached"] or "c"
        msg = str(e)
        if msg not in res["stdout"] and msg not in res["stderr"]:
            vio.append(violation(PROP, "c", "error-message-missing:%s" % type(e).__name__,
                                 "stdout lacks the library's message %r [argv=%r]" % (msg[:120], case_argv)))
        if has_scores:
            vio.append(violation(PROP, "c", "result-for-invalid-vector",
                                 "score/vector lines printed for an invalid vector [argv=%r]" % (case_argv,)))
        return vio, info
    except Exception:
        return vio, info  # a non-CVSSError from the constructor is C04's business; the CLI crashed -> clause a
    # ---- clause b: valid vector ----
    info["reached"] = info["reached"] or "b"
    scores = obj.scores()
    sevs = obj.severities()
    if view["labels_found"] == 0:
        # the report does not use the labels this oracle knows (a re-worded report): fall back to the
        # values themselves, which the statement demands whatever they are called
        info["labels_unrecognised"] = True
        toks = [t.strip(",;") for t in report.split()]
        want = []
        for i in range(len(scores)):
            want.append(str(scores[i]))
            if sel != "2":
                want.append("(%s)" % sevs[i])
        want += [obj.clean_vector(), obj.rh_vector()]
        pos = 0
        for w in want:
            try:
                pos = toks.index(w, pos) + 1
            except ValueError:
                if w in toks:
                    continue  # present, only the order differs from the usual one
                vio.append(violation(PROP, "b", "value-missing:%s" % sel[0],
                                     "the report lacks %r (scores %r, ratings %r, cleaned %r) [argv=%r]" %
                                     (w, scores, sevs, obj.clean_vector(), case_argv)))
                break
        view["scores"] = {}
        view["clean"], view["rh"] = obj.clean_vector(), obj.rh_vector()
        scores_to_check = ()
    else:
        scores_to_check = SCORE_LABELS
    for i, lab in enumerate(scores_to_check):
        got = view["scores"].get(lab)
        if i >= len(scores):
            if got:
                vio.append(violation(PROP, "b", "phantom-score:%s:%s" % (sel[0], lab.split()[0]),
                                     "%s line printed but v%s has no such score" % (lab, sel)))
            continue
        if not got:
            vio.append(violation(PROP, "b", "score-line-missing:%s:%s" % (sel[0], lab.split()[0]),
                                 "no '%s:' line (score %s) [argv=%r vector=%r]" % (lab, scores[i], case_argv, vector[:80])))
            continue
        if len(got) > 1:
            vio.append(violation(PROP, "b", "score-line-twice:%s:%s" % (sel[0], lab.split()[0]), "'%s:' printed twice" % lab))
        toks = got[0]
        # the first token is the score (a unit such as "/10" or a comma may be glued to it); further
        # columns are free, but a token that names a rating must name the library's rating
        if not toks or not score_token_ok(toks[0], scores[i]):
            vio.append(violation(PROP, "b", "score-differs:%s:%s" % (sel[0], lab.split()[0]),
                                 "%s printed as %r, library says %s [vector=%r]" % (lab, " ".join(toks), scores[i], vector[:80])))
        want_rating = "(%s)" % sevs[i]
        named = [t for t in toks[1:] if t.strip("()[],;:").capitalize() in RATING_WORDS]
        rating = " ".join(named)
        if named and any(t.strip("()[],;:").capitalize() != sevs[i] for t in named):
            vio.append(violation(PROP, "b", "rating-differs:%s:%s" % (sel[0], lab.split()[0]),
                                 "%s rating printed as %r, library says %r [vector=%r]" % (lab, rating, want_rating, vector[:80])))
        elif sel != "2" and not named:
            vio.append(violation(PROP, "b", "rating-differs:%s:%s" % (sel[0], lab.split()[0]),
                                 "%s printed without its rating %r: %r [vector=%r]" % (lab, want_rating, " ".join(toks), vector[:80])))
    if not vector_token_ok(view["clean"], obj.clean_vector()):
        vio.append(violation(PROP, "b", "cleaned-vector-differs:%s" % sel[0],
                             "Cleaned vector printed as %r, library says %r" % (view["clean"], obj.clean_vector())))
    if not vector_token_ok(view["rh"], obj.rh_vector()):
        vio.append(violation(PROP, "b", "rh-vector-differs:%s" % sel[0],
                             "Red Hat vector printed as %r, library says %r" % (view["rh"], obj.rh_vector())))
    if case["flags"]["j"]:
        want = json.loads(json.dumps(obj.as_json(sort=True, minimal=True)), object_pairs_hook=OrderedDict)
        if view["json_text"] is None:
            vio.append(violation(PROP, "b", "json-missing:%s" % sel[0], "-j given, no JSON document on stdout"))
        else:
            got = view["json_doc"]
            if got is not None and 0 <= view["json_offset"] < view["last_label_offset"]:
                vio.append(violation(PROP, "b", "json-before-report:%s" % sel[0],
                                     "the JSON document reaches stdout before the score / vector lines it belongs after "
                                     "(output order scrambled) [argv=%r]" % (case_argv,)))
            if got is None:
                vio.append(violation(PROP, "b", "json-unparsable:%s" % sel[0], "no JSON object parses from the '{' on stdout: %r" % view["json_text"][:80]))
            else:
                if got != want:
                    vio.append(violation(PROP, "b", "json-content-differs:%s" % sel[0],
                                         "JSON differs from as_json(sort=True, minimal=True): keys %s" %
                                         sorted(set(got) ^ set(want) or [k for k in want if got.get(k) != want[k]])[:6]))
                elif list(got.items()) != list(want.items()):
                    vio.append(violation(PROP, "b", "json-order-differs:%s" % sel[0], "JSON keys not in the order of the sorted as_json()"))
    else:
        if view["json_doc"] is not None:
            vio.append(violation(PROP, "b", "json-unrequested:%s" % sel[0], "JSON printed without -j"))
    return vio, info


def stdin_bytes(script):
    out = []
    for kind, text in script:
        if kind == "l":
            out.append(text + "\n")
        elif kind == "m":
            out.append(text)
            break
        else:
            break
    return "".join(out).encode("utf-8")


# process environments of the real child processes (a swarm dimension of the real-process sample):
# the stdout/stdin encoding a user's locale or PYTHONIOENCODING may impose. Restricted encodings are
# only used for runs whose argv and answers are pure ASCII (so everything printed is encodable).
REAL_ENVS = {
    "utf-8": {"PYTHONIOENCODING": "utf-8", "LANG": "C.UTF-8", "LC_ALL": "C.UTF-8"},
    "latin-1": {"PYTHONIOENCODING": "latin-1", "LANG": "C.UTF-8", "LC_ALL": "C.UTF-8"},
    "ascii": {"PYTHONIOENCODING": "ascii", "LANG": "C", "LC_ALL": "C"},
    "c-locale": {"LANG": "C", "LC_ALL": "C", "PYTHONUTF8": "0", "PYTHONCOERCECLOCALE": "0"},
    "cp1252-replace": {"PYTHONIOENCODING": "cp1252:replace", "LANG": "C.UTF-8", "LC_ALL": "C.UTF-8"},
}
REAL_ENVS["pty"] = {"LANG": "C.UTF-8", "LC_ALL": "C.UTF-8", "TERM": "xterm"}
REAL_ENV_ORDER = ["utf-8", "latin-1", "pty", "ascii", "utf-8", "c-locale", "pty", "cp1252-replace"]
PTY_MAX_BYTES = 2000  # the line discipline holds 4096 bytes of unread input; everything is written up front


def pty_able(argv, script):
    """A pseudo-terminal in canonical mode edits its input (erase, kill, EOF characters) and holds a
    bounded amount of it: only short scripts of printable ASCII go through it unchanged."""
    total = 0
    for kind, t in script:
        if kind == "m":
            # CPython's terminal path of input() drops the last character of an unterminated final line
            # (it assumes the newline is there): not the program's doing, so such scripts stay on pipes
            return False
        total += len(t) + 1
        for ch in t:
            if not (" " <= ch <= "~" or ch == "\t"):
                return False
    return total <= PTY_MAX_BYTES and pure_ascii(argv, [])


def run_real_pty(argv, script, python=None, timeout=60):
    """The same run as a real child process whose stdin, stdout and stderr are one pseudo-terminal
    (`input()` then takes its terminal path, stdout is line buffered, isatty() is true). The terminal is
    put into a plain canonical mode (no echo, no signal / flow-control characters, no output
    post-processing) and the whole script is written before the child starts, each end of input as the
    EOF character at the start of a line: nothing depends on timing."""
    import select
    import termios
    import time

    repo = core.repo_dir()
    env = {"PYTHONPATH": repo, "PYTHONHASHSEED": "0", "PYTHONDONTWRITEBYTECODE": "1",
           "PATH": os.environ.get("PATH", "/usr/bin:/bin"), "HOME": "/nonexistent"}
    env.update(REAL_ENVS["pty"])
    master, slave = os.openpty()
    try:
        a = termios.tcgetattr(slave)
        a[0] &= ~(termios.ICRNL | termios.INLCR | termios.IGNCR | termios.IXON | termios.IXOFF | termios.ISTRIP)
        a[1] &= ~termios.OPOST
        a[3] &= ~(termios.ECHO | termios.ECHOE | termios.ECHOK | termios.ECHONL | termios.ISIG | termios.IEXTEN)
        a[3] |= termios.ICANON
        termios.tcsetattr(slave, termios.TCSANOW, a)
        data = stdin_bytes(script)
        data += b"\x04" * 6
        os.write(master, data)
        p = subprocess.Popen([python or sys.executable, "-m", "cvss.cvss_calculator"] + list(argv), stdin=slave, stdout=slave,
                             stderr=slave, cwd=repo, env=env, close_fds=True)
    finally:
        os.close(slave)
    chunks = []
    deadline = time.time() + timeout
    try:
        while True:
            left = deadline - time.time()
            if left <= 0:
                p.kill()
                p.wait()
                raise subprocess.TimeoutExpired(argv, timeout)
            r, _, _ = select.select([master], [], [], min(left, 1.0))
            if not r:
                if p.poll() is not None:
                    # the child is gone and nothing is pending
                    r2, _, _ = select.select([master], [], [], 0)
                    if not r2:
                        break
                continue
            try:
                b = os.read(master, 65536)
            except OSError:
                break  # EIO: every slave descriptor is closed
            if not b:
                break
            chunks.append(b)
        p.wait()
    finally:
        os.close(master)
    text = b"".join(chunks).decode("utf-8", "replace")
    return {"exit": p.returncode, "stdout": text, "stderr": text if looks_like_crash(text) else ""}


def pure_ascii(argv, script):
    try:
        for a in argv:
            a.encode("ascii")
        for _, t in script:
            t.encode("ascii")
        return True
    except UnicodeError:
        return False


def run_real(argv, script, python=None, timeout=60, envname="utf-8"):
    """The same run as a real child process: exit status, stdout, stderr. The environment is built
    from scratch (no PYTHONUNBUFFERED etc. inherited): stdout is a block-buffered pipe, as for a user
    who redirects the output."""
    repo = core.repo_dir()
    env = {"PYTHONPATH": repo, "PYTHONHASHSEED": "0", "PYTHONDONTWRITEBYTECODE": "1",
           "PATH": os.environ.get("PATH", "/usr/bin:/bin"), "HOME": "/nonexistent"}
    env.update(REAL_ENVS[envname])
    p = subprocess.run([python or sys.executable, "-m", "cvss.cvss_calculator"] + list(argv), input=stdin_bytes(script),
                       stdout=subprocess.PIPE, stderr=subprocess.PIPE, cwd=repo, env=env, timeout=timeout)
    return {"exit": p.returncode, "stdout": p.stdout.decode("utf-8", "replace"), "stderr": p.stderr.decode("utf-8", "replace")}


class EofAtAgent(object):
    """Enumerated EOF sweep: the first legal value (canonical) at every prompt; at read index k either
    end of input, or a legal answer without newline followed by end of input."""

    def __init__(self, version, labels, k, midline, refuse_first=False):
        self.sp = spec.SPECS[version]
        self.labels = labels
        self.k = k
        self.midline = midline
        self.refuse_first = refuse_first

    def answer(self, index, prompt):
        label, offered = runner23.parse_prompt(prompt, self.labels)
        m = self.labels.get(label)
        value = self.sp.values[m][0] if m in self.sp.values else (offered[0] if offered else "N")
        if index == self.k:
            return ("m", value) if self.midline else ("e", "")
        if self.refuse_first and index == self.k - 1:
            return "l", "zz9"
        return "l", value


def eof_sweep_cases():
    cases = []
    for vflag in (None, "-2", "-3", "-4"):
        version = SELECTED[vflag]
        for all_metrics in (False, True):
            nq = len(spec.SPECS[version].metrics(all_metrics))
            for k in range(0, nq + 1):
                for midline in (False, True):
                    for refuse_first in (False, True):
                        if refuse_first and k == 0:
                            continue
                        cases.append((vflag, all_metrics, k, midline, refuse_first))
    return cases


class CliEngine(object):
    prop = PROP
    isolate_runs = True  # every run in a forked child of the worker (no state leaks from run to run)

    def __init__(self, seed=0, real_every=0, mode="random"):
        self.seed = seed
        self.real_every = real_every
        self.mode = mode
        self.cases = eof_sweep_cases() if mode == "eofsweep" else None
        self.labels = dict((v, spec.label_map(v)) for v in spec.VERSIONS)
        import cvss

        self.ctors = {"CVSS2": cvss.CVSS2, "CVSS3": cvss.CVSS3, "CVSS4": cvss.CVSS4}

    def make_agent(self, rng, selected, all_metrics):
        sw = engine_builder.draw_swarm(rng.fork("swarm"), version=selected)
        # CLI sessions should mostly complete: keep the agent mostly legal, faults as drawn
        sw["all"] = all_metrics
        sw["w_legal"] = max(sw["w_legal"], 10)
        nq = len(spec.SPECS[selected].metrics(all_metrics))
        sw["fault"]["k"] = rng.fork("faultpos").below(nq + 2)
        return engine_builder.LiveAgent(rng.fork("workload"), rng.fork("faults"), sw, selected, all_metrics,
                                        self.labels[selected]), sw

    def run_eof_case(self, index):
        vflag, all_metrics, k, midline, refuse_first = self.cases[index]
        version = SELECTED[vflag]
        argv = ([vflag] if vflag else []) + (["-a"] if all_metrics else []) + ["-n"] + (["-j"] if index % 2 else [])
        agent = EofAtAgent(version, self.labels[version], k, midline, refuse_first)
        rec = runner23.ScriptAgent([], fallback=agent)
        res = runner23.run_cli(argv, rec, MAX_READS)
        item = {"k": "cli", "argv": argv, "script": rec.served, "cap": MAX_READS}
        trace = {"engine": "cli", "eof_sweep_case": [vflag, all_metrics, k, midline, refuse_first], "item": item, "real": True}
        out = self.assess(trace, res)
        out["counters"]["sweep.eof_runs"] = 1
        out["counters"]["fault.eof_midline" if midline else "fault.eof"] = 1
        # every 7th case also as a real child process
        if index % 7 == 0:
            self.compare_real(out, item, res, REAL_ENV_ORDER[(index // 7) % len(REAL_ENV_ORDER)])
        return out

    def run_one(self, index):
        if self.mode == "eofsweep":
            return self.run_eof_case(index)
        run_seed = mix(self.seed, PROP, index)
        rng = Rng(run_seed)
        case = draw_case(rng.fork("argv"))
        agent, sw = self.make_agent(rng, case["selected"], case["flags"]["a"])
        rec = runner23.ScriptAgent([], fallback=agent)
        res = runner23.run_cli(case["argv"], rec, MAX_READS)
        item = {"k": "cli", "argv": case["argv"], "script": rec.served, "cap": MAX_READS}
        trace = {"engine": "cli", "run_seed": run_seed, "run_index": index, "item": item,
                 "note": {"vclass": case["vclass"], "fault": sw["fault"]}}
        out = self.assess(trace, res)
        for k, n in agent.counters.items():
            if k.startswith("fault.") or k.startswith("probe."):
                out["counters"][k] = out["counters"].get(k, 0) + n
        out["counters"]["vclass." + (case["vclass"] or "interactive").split(".")[0]] = 1
        if self.real_every and index % self.real_every == 0:
            out["trace"]["real"] = True
            self.compare_real(out, item, res, REAL_ENV_ORDER[(index // self.real_every) % len(REAL_ENV_ORDER)])
        return out

    def compare_real(self, out, item, res, envname=None):
        if envname is None:
            envname = out["trace"].get("real_env") or "utf-8"
        if envname == "pty" and not pty_able(item["argv"], item["script"]):
            envname = "utf-8"
        if envname != "utf-8" and not pure_ascii(item["argv"], item["script"]):
            envname = "utf-8"
        out["trace"]["real_env"] = envname
        try:
            if envname == "pty":
                try:
                    real = run_real_pty(item["argv"], item["script"])
                except subprocess.TimeoutExpired:
                    raise
                except Exception as e:  # noqa: B902 - OSError, termios.error, ImportError ...
                    # no pseudo-terminals in this sandbox (/dev/ptmx missing, termios absent): pipes instead
                    out["counters"]["pty_unavailable"] = 1
                    out.setdefault("notes", []).append("pseudo-terminal unavailable (%s): run repeated on pipes" % (e,))
                    envname = "utf-8"
                    out["trace"]["real_env"] = envname
                    real = run_real(item["argv"], item["script"], envname=envname)
            else:
                real = run_real(item["argv"], item["script"], envname=envname)
        except subprocess.TimeoutExpired:
            out["violations"].append(violation(PROP, "a", "real-process-hangs", "real child process did not finish in 60 s [argv=%r]" % (item["argv"],)))
            return
        out["counters"]["real_process_runs"] = 1
        out["counters"]["real_process_runs.env." + envname] = 1
        sim_exit = res["exit"]
        same = (real["exit"] == sim_exit and real["stdout"] == res["stdout"] and bool(real["stderr"]) == bool(res["stderr"]))
        if same:
            out["counters"]["stub_vs_real_agreements"] = 1
        else:
            # the real process is the authority: judge it with the same oracle
            out["counters"]["stub_vs_real_disagreements"] = 1
            res2 = dict(res)
            res2.update(real)
            res2["exc"] = None
            res2["events"] = []  # judge the real stdout as a whole, not the simulated event log
            res2["main_returned"] = None
            vio, _ = judge(item["argv"], res2, self.ctors, None)
            for v in vio:
                v["sig"] += ":real-process"
                v["message"] += " (observed on the real child process, environment %r: %s)" % (envname, REAL_ENVS[envname])
            if not vio:
                # the program may legitimately present things differently on a terminal / under another
                # encoding (the statement pins the reported values, judged above): counted, with a sample
                out["counters"]["stub_vs_real_differences_without_violation"] = 1
                out["counters"]["stub_vs_real_differences_without_violation.env." + envname] = 1
                out.setdefault("notes", []).append("stub and real process (env %s) differ without violating the property: argv=%r sim=(%r,%r) real=(%r,%r)" %
                                                   (envname, item["argv"], sim_exit, res["stdout"][-120:], real["exit"], real["stdout"][-120:]))
            out["violations"].extend(vio)

    def execute(self, trace, shrinking=False):
        item = trace["item"]
        fallback = runner23.FirstOfferedAgent() if shrinking else None
        rec = runner23.ScriptAgent(item["script"], fallback=fallback)
        res = runner23.run_cli(item["argv"], rec, item.get("cap", MAX_READS))
        t = dict(trace)
        t["item"] = dict(item)
        t["item"]["script"] = [list(x) for x in rec.served]
        out = self.assess(t, res)
        if trace.get("real") and not shrinking:
            self.compare_real(out, t["item"], res)
        return out

    def assess(self, trace, res):
        item = trace["item"]
        vio, info = judge(item["argv"], res, self.ctors, self.labels)
        dg = runner23.digest([item["argv"], res["events"], res["exit"], res["exc"], res["stderr"], res["aborted"],
                              [c["returned"] for c in res["builder_calls"]]])
        case = decode_argv(item["argv"])
        counters = {"runs": 1, "reached." + str(info["reached"]): 1, "selected." + case["selected"]: 1,
                    "informational_runs": 1 if case["informational"] else 0,
                    "interactive_runs": 1 if case["interactive"] else 0}
        if any(re_match_bools(t) and len(t) > 2 or (len(t) > 2 and t[0] == "-" and t[1] in SHORT_BOOL and t[1] != "-") for t in item["argv"]):
            counters["spelling.combined-short-flags"] = 1
        if case["abbrev"]:
            counters["spelling.abbreviated-long-option"] = 1
        if case["vector_options"] > 1:
            counters["spelling.vector-given-twice(clause a only)"] = 1
        nontrivial = False
        if info["reached"] in ("b", "c", "d"):
            flagset = "".join(sorted(k for k, v in case["flags"].items() if v)) + "/" + case["selected"]
            fk = "none"
            for ev in res["events"]:
                if ev[0] == "r" and ev[1] in ("e", "m"):
                    fk = ev[1]
                    break
            vclass = (trace.get("note") or {}).get("vclass") or ("interactive" if case["interactive"] else "given")
            nontrivial = [flagset, vclass, fk, info["fault_index"], info["reached"]]
        return {"trace": trace, "digest": dg, "violations": vio, "counters": counters, "nontrivial": nontrivial,
                "steps": res["reads"] + 1,
                "sample": {"argv": item["argv"], "script": item["script"][:20], "exit": res["exit"],
                           "stdout_tail": res["stdout"][-300:], "reached": info["reached"]},
                "result": res}

    def trace_size(self, trace):
        it = trace["item"]
        return (len(it["script"]) * 4 + sum(min(len(a[1]), 40) for a in it["script"]) + 3 * len(it["argv"]) +
                sum(min(len(a), 200) for a in it["argv"]))

    def shrink_candidates(self, trace):
        it = trace["item"]

        def with_item(**kw):
            t = dict(trace)
            t["item"] = dict(it)
            t["item"].update(kw)
            return t

        for cand in list_deletions(it["script"]):
            yield with_item(script=cand)
        argv = it["argv"]
        # drop one flag (never split an option from its value)
        i = 0
        while i < len(argv):
            width = 2 if argv[i] in ("-v", "--vector") else 1
            yield with_item(argv=argv[:i] + argv[i + width:])
            i += width
        # shorten the vector field by field
        for i, a in enumerate(argv):
            for pre in ("--vector=", "-v"):
                if a.startswith(pre) and len(a) > len(pre):
                    for v in self._simpler_vector(a[len(pre):]):
                        yield with_item(argv=argv[:i] + [pre + v] + argv[i + 1:])
            if i > 0 and argv[i - 1] in ("-v", "--vector"):
                for v in self._simpler_vector(a):
                    if not v.startswith("-"):
                        yield with_item(argv=argv[:i] + [v] + argv[i + 1:])
        for i, a in enumerate(it["script"]):
            for simpler in engine_builder.BuilderEngine._simpler(a, None):
                s = [list(x) for x in it["script"]]
                s[i] = simpler
                yield with_item(script=s)

    @staticmethod
    def _simpler_vector(v):
        fields = v.split("/")
        for cand in list_deletions(fields):
            if cand:
                yield "/".join(cand)


def make_engine(seed=0, real_every=0, mode="random"):
    return CliEngine(seed, real_every, mode)

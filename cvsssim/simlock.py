# -*- coding: utf-8 -*-
"""
Lock seam for the thread scheduler (added when a *correct*, lock-protected cache in a benign patch
dead-locked the simulation: thread A was parked by the scheduler inside `with _lock:`, thread B then
blocked on the real lock for ever while holding the baton).

While installed, `threading.Lock()` / `threading.RLock()` called FROM A FRAME OF THE PACKAGE UNDER TEST
return a SimLock: a thin wrapper around a real lock that behaves exactly like it, except that a
*simulated* thread which would block hands the baton to another simulated thread instead (a scheduling
point of kind "blocked", recorded like every other decision) and retries when it is scheduled again.
Locks created by anything else (logging, queue, the harness) stay real locks.
"""
import sys
import threading

ACTIVE = None          # the running Sched, or None
_PREFIX = None
_REAL_LOCK = threading.Lock
_REAL_RLOCK = threading.RLock
created = 0


class SimLock(object):
    def __init__(self, real):
        self._real = real

    def acquire(self, blocking=True, timeout=-1):
        s = ACTIVE
        if s is None or not blocking or not s.is_current_sim_thread():
            return self._real.acquire(blocking, timeout) if blocking else self._real.acquire(False)
        spins = 0
        while True:
            if self._real.acquire(False):
                return True
            spins += 1
            s.blocked(spins)  # hands the baton over; returns when this thread is scheduled again

    def release(self):
        self._real.release()

    def __enter__(self):
        self.acquire()
        return True

    def __exit__(self, *exc):
        self.release()
        return False

    def locked(self):
        return self._real.locked()

    def __getattr__(self, name):
        return getattr(self._real, name)


def _from_package():
    f = sys._getframe(2)
    return _PREFIX is not None and f.f_code.co_filename.startswith(_PREFIX)


def _lock_factory(*a, **kw):
    global created
    real = _REAL_LOCK(*a, **kw)
    if _from_package():
        created += 1
        return SimLock(real)
    return real


def _rlock_factory(*a, **kw):
    global created
    real = _REAL_RLOCK(*a, **kw)
    if _from_package():
        created += 1
        return SimLock(real)
    return real


def install(prefix):
    """Must run before the package under test is imported (module-level locks are created then)."""
    global _PREFIX
    _PREFIX = prefix
    threading.Lock = _lock_factory
    threading.RLock = _rlock_factory

# -*- coding: utf-8 -*-
"""
Shared machinery: batch driver (seeded runs spread over worker processes), aggregation,
violation grouping, known-findings matching, minimisation, replay files, evidence files.

Nothing in here draws random numbers; the wall clock is read only for `wall_s` and the budget
cut-off (which decides how many runs happen, never what a run does).
"""
import collections
import concurrent.futures
import faulthandler
import fnmatch
import json
import multiprocessing
import os
import shutil
import subprocess
import sys
import time
import traceback

from . import runner23
from .rng import mix

VERIF = os.path.dirname(os.path.dirname(os.path.abspath(__file__)))
# (the two overrides exist for the self-tests only, so that runs against scratch copies never
# overwrite the evidence or replay files of the real tree)
OUT = os.environ.get("VERIF_OUT_DIR") or os.path.join(VERIF, "out")
EVIDENCE = os.environ.get("VERIF_EVIDENCE_DIR") or os.path.join(VERIF, "evidence")
KNOWN_FILE = os.path.join(VERIF, "known_findings.txt")
TRACE_FORMAT = "cvsssim-trace-1"


def repo_dir():
    return os.path.abspath(os.environ.get("VERIF_REPO", "/repo"))


def verif_seed():
    try:
        return int(os.environ.get("VERIF_SEED", "0"))
    except ValueError:
        return mix(os.environ.get("VERIF_SEED"))


def jobs():
    try:
        j = int(os.environ.get("VERIF_JOBS", "0"))
    except ValueError:
        j = 0
    return j if j > 0 else (os.cpu_count() or 4)


def attach_repo():
    """Make `import cvss` resolve to the working tree named by VERIF_REPO and verify it."""
    repo = repo_dir()
    from . import simlock

    simlock.install(os.path.join(repo, "cvss") + os.sep)  # before the first import of the package
    if sys.path[0] != repo:
        sys.path.insert(0, repo)
    for name in list(sys.modules):
        if name == "cvss" or name.startswith("cvss."):
            f = getattr(sys.modules[name], "__file__", "") or ""
            if not os.path.abspath(f).startswith(repo + os.sep):
                del sys.modules[name]
    import cvss

    f = os.path.abspath(cvss.__file__)
    if not f.startswith(repo + os.sep):
        raise HarnessError("cvss imported from %s, not from %s" % (f, repo))
    return repo


class HarnessError(Exception):
    """Anything that is neither 'held' nor 'violation' (exit status 2)."""


# ---------------------------------------------------------------------------------------------
# outcome of one run, aggregate of a batch
# ---------------------------------------------------------------------------------------------


def violation(prop, clause, sig_detail, message, **extra):
    """sig = stable signature: property / clause / normalised detail."""
    v = {"sig": "%s:%s:%s" % (prop, clause, sig_detail), "clause": clause, "message": message}
    v.update(extra)
    return v


class Aggregate(object):
    def __init__(self):
        self.evaluations = 0
        self.digests = set()
        self.nontrivial = set()
        self.counters = collections.Counter()
        self.violations = {}  # sig -> {"index", "trace", "message", "count"}
        self.samples = []
        self.steps = 0
        self.extra_sets = collections.defaultdict(set)
        self.harness_errors = []

    def add(self, index, out, keep_sample=False):
        self.evaluations += 1
        d = int(out["digest"][:16], 16)
        self.digests.add(d)
        if out.get("nontrivial"):
            self.nontrivial.add(int(runner23.digest(out["nontrivial"])[:16], 16)
                                if not isinstance(out["nontrivial"], bool) else d)
        for k, n in out.get("counters", {}).items():
            self.counters[k] += n
        self.steps += out.get("steps", 0)
        for name, vals in out.get("sets", {}).items():
            self.extra_sets[name].update(vals)
        for v in out.get("violations", []):
            cur = self.violations.get(v["sig"])
            if cur is None or index < cur["index"]:
                self.violations[v["sig"]] = {
                    "index": index,
                    "trace": out["trace"],
                    "message": v["message"],
                    "count": (cur["count"] if cur else 0) + 1,
                }
            else:
                cur["count"] += 1
        if keep_sample and len(self.samples) < 4:
            self.samples.append(out.get("sample", out["trace"]))

    def merge(self, other):
        self.evaluations += other.evaluations
        self.digests |= other.digests
        self.nontrivial |= other.nontrivial
        self.counters.update(other.counters)
        self.steps += other.steps
        for name, vals in other.extra_sets.items():
            self.extra_sets[name] |= vals
        for sig, v in other.violations.items():
            cur = self.violations.get(sig)
            if cur is None:
                self.violations[sig] = v
            else:
                n = cur["count"] + v["count"]
                if v["index"] < cur["index"]:
                    self.violations[sig] = v
                self.violations[sig]["count"] = n
        for s in other.samples:
            if len(self.samples) < 6:
                self.samples.append(s)
        self.harness_errors.extend(other.harness_errors)


# ---------------------------------------------------------------------------------------------
# batch driver
# ---------------------------------------------------------------------------------------------

_ENGINE = None


def _work(args):
    make_engine, eparams, start, stop, sample_every = args[:5]
    stop_at = args[5] if len(args) > 5 else None
    global _ENGINE
    faulthandler.enable()
    faulthandler.dump_traceback_later(600, exit=True)
    try:
        if _ENGINE is None or _ENGINE[0] != (make_engine.__module__, make_engine.__name__, repr(eparams)):
            _ENGINE = ((make_engine.__module__, make_engine.__name__, repr(eparams)), make_engine(**eparams))
        eng = _ENGINE[1]
        agg = Aggregate()
        isolate = getattr(eng, "isolate_runs", False)
        for i in range(start, stop):
            faulthandler.dump_traceback_later(600, exit=True)  # re-armed for every run (a run is limited to run_timeout())
            if stop_at is not None and time.time() > stop_at:
                # wall budget used up: the rest of the chunk is not executed (which indices ran is reported
                # in the evidence; run i itself never depends on the budget)
                agg.counters["chunks_cut_by_budget"] = agg.counters.get("chunks_cut_by_budget", 0) + 1
                break
            try:
                out = _isolated(eng, i, make_engine, eparams) if isolate else eng.run_one(i)
            except HarnessError as e:
                agg.harness_errors.append("run %d: %s" % (i, e))
                continue
            agg.add(i, out, keep_sample=(i % sample_every == 0))
        return agg
    except BaseException:  # noqa: B902
        agg = Aggregate()
        agg.harness_errors.append("worker crashed in [%d,%d): %s" % (start, stop, traceback.format_exc()))
        return agg
    finally:
        faulthandler.cancel_dump_traceback_later()


def run_timeout():
    """Wall-clock limit of one isolated run. A run takes milliseconds (a real child process: a second);
    the simulated terminal already turns endless reading or writing into a verdict, so what is left for
    this limit is code that spins or blocks without any I/O."""
    try:
        return float(os.environ.get("VERIF_RUN_TIMEOUT_S", "") or 90.0)
    except ValueError:
        return 90.0


def _hang_outcome(eng, index, make_engine, eparams, limit):
    trace = {"engine": getattr(eng, "name", None) or type(eng).__name__,
             "hang": {"index": index, "make": [make_engine.__module__, make_engine.__name__], "eparams": eparams,
                      "limit_s": limit}}
    msg = ("run %d (%s %r) did not finish within %.0f s of wall time (such a run takes milliseconds): the code under "
           "test neither returned nor read nor wrote; the child process was killed. The replay file names the run by "
           "its engine parameters and index and re-executes it under the same limit" %
           (index, make_engine.__module__.split(".")[-1], eparams, limit))
    return {"trace": trace, "digest": runner23.digest(["hang", make_engine.__module__, repr(sorted(eparams.items())), index]),
            "violations": [violation(eng.prop, "liveness", "run-hangs", msg)],
            "counters": {"runs": 1, "runs_killed_at_wall_limit": 1}, "nontrivial": False, "steps": 0,
            "sample": {"hang_at_run_index": index}}


def execute_trace(engine, trace):
    """engine.execute(trace), or -- for a run that was killed at its wall limit -- the run itself again."""
    hang = trace.get("hang")
    if not hang:
        return engine.execute(trace)
    import importlib

    make = getattr(importlib.import_module(hang["make"][0]), hang["make"][1])
    eng = make(**hang["eparams"])
    out = _isolated(eng, hang["index"], make, hang["eparams"], limit=hang.get("limit_s"))
    if not out["trace"].get("hang"):
        # it finished this time: whatever it found is reported, the recorded hang is not reproduced
        out = dict(out)
        out["trace"] = trace
    return out


def _isolated(eng, index, make_engine=None, eparams=None, limit=None):
    """One run in a forked child of the worker: whatever state the code under test leaves behind in
    the process dies with the child, so run i really is the same whatever ran before it (and a
    violation that needs such left-over state can only come from a run that creates it itself)."""
    import pickle
    import select
    import signal

    limit = limit or run_timeout()
    r, w = os.pipe()
    pid = os.fork()
    if pid == 0:
        code = 0
        try:
            os.close(r)
            try:
                out = eng.run_one(index)
                out.pop("result", None)
                data = pickle.dumps(("ok", out), 2)
            except HarnessError as e:
                data = pickle.dumps(("harness", str(e)), 2)
            except BaseException:  # noqa: B902
                data = pickle.dumps(("crash", traceback.format_exc()), 2)
            with os.fdopen(w, "wb") as f:
                f.write(data)
        except BaseException:  # noqa: B902
            code = 3
        finally:
            os._exit(code)
    os.close(w)
    chunks = []
    t_end = time.time() + limit
    hung = False
    try:
        while True:
            left = t_end - time.time()
            if left <= 0:
                hung = True
                break
            ready, _, _ = select.select([r], [], [], min(left, 5.0))
            if not ready:
                continue
            b = os.read(r, 1 << 16)
            if not b:
                break
            chunks.append(b)
    finally:
        os.close(r)
    if hung:
        try:
            os.kill(pid, signal.SIGKILL)
        except OSError:
            pass
        os.waitpid(pid, 0)
        if make_engine is None:
            raise HarnessError("isolated run %d did not finish within %.0f s" % (index, limit))
        return _hang_outcome(eng, index, make_engine, eparams, limit)
    os.waitpid(pid, 0)
    if not chunks:
        raise HarnessError("isolated run %d died without a result" % index)
    kind, val = pickle.loads(b"".join(chunks))
    if kind == "ok":
        return val
    raise HarnessError("isolated run %d: %s" % (index, val))


def run_batch(make_engine, eparams, n_runs, chunk, budget_s, first_index=0, njobs=None, progress=None):
    """Run indices [first_index, first_index+n_runs) spread over worker processes.
    Returns (Aggregate, info). Run i is the same whatever the budget or the worker count."""
    njobs = njobs or jobs()
    t0 = time.time()
    # never plan beyond the instant by which the registered command must have printed its verdict
    budget_s = min(budget_s, max(5.0, hard_deadline() - t0 - 150.0))
    stop_at = t0 + budget_s + 5.0
    tasks = []
    i = first_index
    end = first_index + n_runs
    while i < end:
        j = min(end, i + chunk)
        tasks.append((make_engine, eparams, i, j, max(1, n_runs // 4), stop_at))
        i = j
    total = Aggregate()
    info = {"planned_runs": n_runs, "budget_cutoff": False, "workers": njobs}
    if njobs == 1 or len(tasks) == 1:
        for t in tasks:
            if time.time() - t0 > budget_s:
                info["budget_cutoff"] = True
                break
            total.merge(_work(t))
        if total.counters.get("chunks_cut_by_budget"):
            info["budget_cutoff"] = True
        return total, info
    ctx = multiprocessing.get_context("fork")
    with concurrent.futures.ProcessPoolExecutor(max_workers=njobs, mp_context=ctx) as ex:
        pending = collections.deque(tasks)
        live = set()
        try:
            while pending or live:
                while pending and len(live) < njobs * 2:
                    if time.time() - t0 > budget_s:
                        info["budget_cutoff"] = True
                        pending.clear()
                        break
                    live.add(ex.submit(_work, pending.popleft()))
                if not live:
                    break
                done, live = concurrent.futures.wait(live, timeout=900, return_when=concurrent.futures.FIRST_COMPLETED)
                if not done:
                    raise HarnessError("no worker finished a chunk within 900 s")
                for f in done:
                    total.merge(f.result())
        except concurrent.futures.process.BrokenProcessPool as e:
            raise HarnessError("worker process died: %s" % (e,))
    if total.counters.get("chunks_cut_by_budget"):
        info["budget_cutoff"] = True
    return total, info


# ---------------------------------------------------------------------------------------------
# known findings
# ---------------------------------------------------------------------------------------------


def load_known(prop):
    """known: property=<id> sig=<signature or fnmatch pattern> <what fails>"""
    out = []
    if not os.path.exists(KNOWN_FILE):
        return out
    with open(KNOWN_FILE) as f:
        for line in f:
            line = line.strip()
            if not line.startswith("known:"):
                continue
            parts = line[len("known:"):].split(None, 2)
            if len(parts) < 3 or not parts[0].startswith("property=") or not parts[1].startswith("sig="):
                continue
            if parts[0][len("property="):] != prop:
                continue
            out.append((parts[1][len("sig="):], parts[2]))
    return out


def match_known(known, sig):
    for pat, what in known:
        if sig == pat or fnmatch.fnmatchcase(sig, pat):
            return what
    return None


# ---------------------------------------------------------------------------------------------
# minimisation (delta debugging over lists) -- engines supply the candidate generators
# ---------------------------------------------------------------------------------------------


def list_deletions(items):
    """Candidate sub-lists: remove chunks of size n/2, n/4, ..., 1 (big deletions first)."""
    n = len(items)
    size = n
    seen = set()
    while size >= 1:
        for start in range(0, n, size):
            cand = items[:start] + items[start + size:]
            key = runner23.dumps(cand)
            if len(cand) < n and key not in seen:
                seen.add(key)
                yield cand
        if size == 1:
            break
        size = size // 2


def shrink(engine, trace, sig, budget_s=20.0):
    """Greedy delta debugging: try the engine's candidate simplifications (deletions first) and
    adopt one whenever the *same violation signature* persists; restart from the adopted trace."""
    deadline = time.time() + budget_s
    tests = [0]

    def fails(t):
        tests[0] += 1
        try:
            out = engine.execute(t, shrinking=True)
        except HarnessError:
            return None
        for v in out["violations"]:
            if v["sig"] == sig:
                return out
        return None

    def rank(t):
        return (engine.trace_size(t), len(runner23.dumps(t)), runner23.dumps(t))

    best = trace
    progress = True
    while progress and time.time() < deadline:
        progress = False
        for cand in engine.shrink_candidates(best):
            if time.time() >= deadline:
                break
            out = fails(cand)
            if out is not None and rank(out["trace"]) < rank(best):
                best = out["trace"]
                progress = True
                break
    return best, tests[0]


# ---------------------------------------------------------------------------------------------
# replay files
# ---------------------------------------------------------------------------------------------


def write_replay(prop, trace, sig, message, digest, name=None):
    d = os.path.join(OUT, "replays", prop)
    os.makedirs(d, exist_ok=True)
    doc = dict(trace)
    doc["format"] = TRACE_FORMAT
    doc["property"] = prop
    doc["expect"] = {"signature": sig, "message": message, "digest": digest}
    name = name or ("%s-%s.json" % (prop, runner23.digest([sig, trace])[:12]))
    path = os.path.join(d, name)
    with open(path, "w") as f:
        json.dump(doc, f, indent=1, sort_keys=True)
    return path


def replay_in_fresh_process(prop, path, timeout=300):
    """Re-execute a replay file in a fresh interpreter; returns (reproduced?, output)."""
    cmd = [sys.executable, os.path.join(VERIF, "check"), prop, "--replay", path, "--verify"]
    env = dict(os.environ)
    try:
        p = subprocess.run(cmd, stdout=subprocess.PIPE, stderr=subprocess.STDOUT, timeout=timeout, env=env)
    except subprocess.TimeoutExpired:
        return False, "replay timed out"
    out = p.stdout.decode("utf-8", "replace")
    return (p.returncode == 1 and "REPLAY-REPRODUCED" in out), out


# ---------------------------------------------------------------------------------------------
# finishing a check: report, evidence, exit status
# ---------------------------------------------------------------------------------------------


T_START = time.time()


def hard_deadline():
    """Wall-clock instant by which a check should have printed its verdict (the registered commands
    run under `timeout 900` / `timeout 3400`); minimisation budgets shrink as it approaches."""
    tier = os.environ.get("VERIF_TIER_EFFECTIVE", "quick")
    try:
        limit = float(os.environ.get("VERIF_HARD_LIMIT_S", ""))
    except ValueError:
        limit = 780.0 if tier == "quick" else 3250.0
    return T_START + limit


def emit(line):
    """Verdict lines are printed the moment they are established (a later time-out must not lose
    a violation that was already found, minimised and replayed)."""
    print(line)
    sys.stdout.flush()


def report(prop, engine, agg, shrink_budget=20.0, max_shrunk=6):
    """Turn the violations of a batch into KNOWN-FINDING / VIOLATION lines: match known findings,
    minimise, write the replay file, replay it in a fresh process. -> dict"""
    known = load_known(prop)
    lines = []
    n_viol = 0
    n_known = 0
    harness = list(agg.harness_errors)
    reported = []
    known_groups = {}
    for k, (sig, v) in enumerate(sorted(agg.violations.items(), key=lambda kv: (kv[1]["index"], kv[0]))):
        what = match_known(known, sig)
        if what is not None:
            n_known += 1
            g = known_groups.setdefault(what, {"sigs": 0, "runs": 0, "first": sig})
            g["sigs"] += 1
            g["runs"] += v["count"]
            continue
        trace = v["trace"]
        tests = 0
        remaining = hard_deadline() - time.time()
        todo = max(1, len(agg.violations) - k)
        budget_now = max(0.0, min(shrink_budget, (remaining - 60.0) / todo - 5.0))
        if n_viol < max_shrunk and budget_now > 1.0 and not trace.get("hang"):
            try:
                trace, tests = shrink(engine, trace, sig, budget_now)
            except Exception:
                harness.append("shrinker failed for %s: %s" % (sig, traceback.format_exc()))
        out = execute_trace(engine, trace)
        vs = [x for x in out["violations"] if x["sig"] == sig]
        if not vs:
            harness.append("violation %s did not reproduce in-process after shrinking" % sig)
            continue
        path = write_replay(prop, out["trace"], sig, vs[0]["message"], out["digest"])
        ok, rout = replay_in_fresh_process(prop, path)
        if not ok:
            harness.append("violation %s does not replay in a fresh process (%s):\n%s" % (sig, path, rout[-2000:]))
            continue
        n_viol += 1
        reported.append({"sig": sig, "message": vs[0]["message"], "replay": path, "runs": v["count"],
                         "first_index": v["index"], "shrink_tests": tests})
        emit("violation: %s -- %s (seen in %d run(s), first at run index %d, minimised with %d re-executions)"
             % (sig, vs[0]["message"], v["count"], v["index"], tests))
        emit("VIOLATION property=%s replay=%s" % (prop, path))
    # one KNOWN-FINDING line per listed finding that was observed
    for what, g in sorted(known_groups.items()):
        lines.insert(0, "KNOWN-FINDING: property=%s %s [%d signature(s), %d observation(s), e.g. %s]" %
                     (prop, what, g["sigs"], g["runs"], g["first"]))
    return {"lines": lines, "n_viol": n_viol, "n_known": len(known_groups), "harness": harness, "reported": reported,
            "known": [{"what": w, "signatures": g["sigs"], "observations": g["runs"]} for w, g in sorted(known_groups.items())]}


def finish(prop, tier, engine, agg, info, t0, coverage_extra, assumptions, rule, level="exploration",
           shrink_budget=20.0, max_shrunk=6, reports=None):
    if reports is None:
        reports = [report(prop, engine, agg, shrink_budget, max_shrunk)]
    lines = [ln for r in reports for ln in r["lines"]]
    n_viol = sum(r["n_viol"] for r in reports)
    n_known = sum(r["n_known"] for r in reports)
    harness = [h for r in reports for h in r["harness"]]
    reported = [x for r in reports for x in r["reported"]]
    wall = time.time() - t0
    cov = {
        "evaluations": agg.evaluations,
        "distinct_nontrivial": len(agg.nontrivial),
        "distinct_runs": len(agg.digests),
        "rule": rule,
        "samples": agg.samples[:4],
        "runs_per_hour": int(agg.evaluations / wall * 3600) if wall > 0 else 0,
        "seeds": {"VERIF_SEED": verif_seed(), "run_seed_rule": "mix(VERIF_SEED, property, run_index)",
                  "run_indices": [0, max(0, info.get("planned_runs", agg.evaluations) - 1)]},
        "simulated_time": "n/a (no clock, timer or deadline anywhere in cvss/*.py); logical steps = %d" % agg.steps,
        "logical_steps": agg.steps,
        "counters": dict(sorted(agg.counters.items())),
        "budget_cutoff": info.get("budget_cutoff", False),
        "workers": info.get("workers"),
        "violations_reported": reported,
        "known_findings_matched": [k for r in reports for k in r.get("known", [])],
        "harness_errors": harness[:5],
        "repo": repo_dir(),
    }
    cov.update(coverage_extra or {})
    ev = {
        "property_id": prop,
        "tier": tier,
        "seed": verif_seed(),
        "level": level,
        "coverage": cov,
        "assumptions": assumptions,
        "wall_s": round(wall, 3),
        "violations": n_viol,
    }
    os.makedirs(EVIDENCE, exist_ok=True)
    tmp = os.path.join(EVIDENCE, ".%s.json.%d" % (prop, os.getpid()))
    with open(tmp, "w") as f:
        json.dump(ev, f, indent=1, sort_keys=True)
    os.replace(tmp, os.path.join(EVIDENCE, prop + ".json"))
    for ln in lines:
        print(ln)
    zero = [k for k, n in sorted(agg.counters.items()) if k.startswith("probe.") and n == 0]
    if zero:
        print("warning: probes stuck at zero: %s" % ", ".join(zero))
    print("%s %s: %d runs (%d distinct, %d distinct non-trivial), %d violation signature(s), %d known, %.1f s, %d runs/h"
          % (prop, tier, agg.evaluations, len(agg.digests), cov["distinct_nontrivial"], n_viol, n_known, wall,
             cov["runs_per_hour"]))
    if harness:
        for h in harness[:5]:
            print("HARNESS-ERROR %s" % h)
        return 2 if n_viol == 0 else 1
    return 1 if n_viol else 0


def _tmp_base():
    """One scratch directory per check invocation (workers inherit it through the environment)."""
    base = os.environ.get("CVSSSIM_TMP")
    if not base:
        base = os.path.join(OUT, "tmp", str(os.getpid()))
        os.environ["CVSSSIM_TMP"] = base
        os.environ["CVSSSIM_TMP_OWNER"] = str(os.getpid())
    return base


def cleanup_tmp():
    base = os.environ.get("CVSSSIM_TMP")
    if base and os.environ.get("CVSSSIM_TMP_OWNER") == str(os.getpid()):
        shutil.rmtree(base, ignore_errors=True)


def tmp_dir():
    d = os.path.join(_tmp_base(), str(os.getpid()))
    os.makedirs(d, exist_ok=True)
    return d

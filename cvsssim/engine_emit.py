# -*- coding: utf-8 -*-
"""
C08 -- every vector string that crosses a simulated stream is valid for its version (DESIGN 3.1).

Decided by simulation: the string *returned by the interactive builder* for any answer history and
the "Cleaned vector" / "Red Hat vector" lines the CLI writes for any command line and answer
history.  The pure clause (clean_vector()/rh_vector() of an arbitrary accepted vector) has no
schedule, fault or history in it; it is only *sampled* here (run kind "api") and reported
separately as pure_clause_sampled.
"""
from . import engine_builder, engine_cli, runner23, spec, vectors
from .core import list_deletions, violation
from .rng import Rng, mix

PROP = "C08"
MAX_READS = 400


def validate(emitter, s, ctors, expect_version=None):
    """(a) the library's own parser for that version accepts it, (b) it matches the pinned official
    pattern of its version; the version is the one implied by the emitted prefix, which must be
    the version that was requested."""
    vio = []
    if not isinstance(s, str):
        return [violation(PROP, "type", "%s" % emitter, "%s emitted %r, not a string" % (emitter, s))]
    version = spec.version_of_emitted(s)
    if expect_version is not None and version != expect_version:
        vio.append(violation(PROP, "prefix", "%s:%s" % (emitter, expect_version),
                             "%s emitted %r for a v%s request" % (emitter, s[:60], expect_version)))
        version = expect_version
    sp = spec.SPECS[version]
    try:
        ctors[sp.cls](s)
    except Exception as e:
        vio.append(violation(PROP, "parser", "%s:%s:%s" % (emitter, version, type(e).__name__),
                             "%s emitted %r which %s rejects: %s" % (emitter, s[:160], sp.cls, e)))
    if not spec.matches_official(version, s):
        vio.append(violation(PROP, "grammar", "%s:%s" % (emitter, version),
                             "%s emitted %r which does not match the official v%s vectorString pattern" % (emitter, s[:200], version)))
    return vio


def rh_vector_part(s):
    return s.split("/", 1)[1] if "/" in s else s


class EmitEngine(object):
    prop = PROP
    isolate_runs = True  # every run in a forked child of the worker (no state leaks from run to run)

    def __init__(self, seed=0):
        self.seed = seed
        self.labels = dict((v, spec.label_map(v)) for v in spec.VERSIONS)
        import cvss

        self.ctors = {"CVSS2": cvss.CVSS2, "CVSS3": cvss.CVSS3, "CVSS4": cvss.CVSS4}

    # -- generation ---------------------------------------------------------------------
    def agent_for(self, rng, version, all_metrics):
        sw = engine_builder.draw_swarm(rng.fork("swarm"), version=version)
        sw["all"] = all_metrics
        # biased to sessions in which most optional metrics receive a *defined* value
        sw["w_legal"] = 30
        sw["w_empty"] = rng.choice([0, 1, 4])
        sw["w_illegal"] = rng.choice([0, 1, 3])
        if rng.chance(0.8):
            sw["fault"]["kind"] = "none"
        return engine_builder.LiveAgent(rng.fork("workload"), rng.fork("faults"), sw, version, all_metrics,
                                        self.labels[version]), sw

    def run_one(self, index):
        run_seed = mix(self.seed, PROP, index)
        rng = Rng(run_seed)
        kind = rng.weighted([("builder", 9), ("cli", 7), ("api", 4)])
        trace = {"engine": "emit", "run_seed": run_seed, "run_index": index}
        if kind == "builder":
            version = rng.choice(list(spec.VERSIONS))
            all_metrics = rng.chance(0.8)
            agent, sw = self.agent_for(rng, version, all_metrics)
            rec = runner23.ScriptAgent([], fallback=agent)
            nocolor = rng.chance(0.5)
            res = runner23.run_builder(version, all_metrics, nocolor, rec, MAX_READS)
            trace["item"] = {"k": "builder", "version": version, "all": all_metrics, "nocolor": nocolor,
                             "script": rec.served, "cap": MAX_READS}
            out = self.assess(trace, res)
            for k, n in agent.counters.items():
                if k.startswith("fault."):
                    out["counters"][k] = n
            return out
        if kind == "cli":
            vflag = rng.weighted([(None, 3), ("-2", 3), ("-3", 2), ("-4", 4)])
            selected = engine_cli.SELECTED[vflag]
            argv = [vflag] if vflag else []
            for f, p in (("-n", 0.5), ("-j", 0.3)):
                if rng.chance(p):
                    argv.append(f)
            interactive = rng.chance(0.3)
            all_metrics = False
            if interactive:
                all_metrics = rng.chance(0.7)
                if all_metrics:
                    argv.append("-a")
            else:
                ver = selected if selected not in ("3.0", "3.1") else rng.choice(["3.0", "3.1"])
                vclass, vec = vectors.any_vector(rng, ver, p_valid=0.9)
                if vec.startswith("-") or vec == "":
                    vec = vectors.valid_vector(rng, ver)
                argv.append("--vector=" + vec)
            rng.shuffle(argv)
            agent, sw = self.agent_for(rng, selected, all_metrics)
            rec = runner23.ScriptAgent([], fallback=agent)
            res = runner23.run_cli(argv, rec, MAX_READS)
            trace["item"] = {"k": "cli", "argv": argv, "script": rec.served, "cap": MAX_READS}
            out = self.assess(trace, res)
            for k, n in agent.counters.items():
                if k.startswith("fault."):
                    out["counters"][k] = n
            return out
        version = rng.choice(list(spec.VERSIONS))
        vec = vectors.valid_vector(rng, version)
        cls = spec.CLASS_OF[version]
        if rng.chance(0.5):
            trace["item"] = {"k": "api", "ops": [{"op": "observe", "cls": cls, "s": vec}]}
        else:
            # the emitting accessors in a drawn order on ONE object (an emitter must not depend on
            # which emitter ran before it)
            calls = [("clean_vector", {}), ("rh_vector", {})]
            if cls != "CVSS2":
                calls += [("clean_vector", {"output_prefix": False}), ("clean_vector", {"output_prefix": True})]
            rng.shuffle(calls)
            calls = calls + [rng.choice(calls)]
            trace["item"] = {"k": "api", "ops": [{"op": "new", "cls": cls, "s": vec, "as": "o"}] +
                             [{"op": "call", "obj": "o", "m": m, "args": a} for m, a in calls]}
        return self.assess(trace, runner23.run_item(trace["item"]))

    # -- replay -------------------------------------------------------------------------
    def execute(self, trace, shrinking=False):
        item = trace["item"]
        t = dict(trace)
        if item["k"] == "api":
            return self.assess(t, runner23.run_item(item))
        fallback = runner23.FirstOfferedAgent() if shrinking else None
        rec = runner23.ScriptAgent(item["script"], fallback=fallback)
        if item["k"] == "builder":
            res = runner23.run_builder(item["version"], item["all"], item["nocolor"], rec, item.get("cap", MAX_READS))
        else:
            res = runner23.run_cli(item["argv"], rec, item.get("cap", MAX_READS))
        t["item"] = dict(item)
        t["item"]["script"] = [list(x) for x in rec.served]
        return self.assess(t, res)

    # -- oracle -------------------------------------------------------------------------
    def assess(self, trace, res):
        item = trace["item"]
        vio = []
        emitted = []
        counters = {"runs." + item["k"]: 1}
        if item["k"] == "builder":
            if res["returned"] is not None:
                emitted.append(res["returned"])
                vio += validate("builder", res["returned"], self.ctors, item["version"])
            dg = runner23.digest([item["version"], item["all"], res["events"], res["returned"], res["exc"]])
            steps = res["reads"]
        elif item["k"] == "cli":
            view = engine_cli.parse_stdout(res["stdout"])
            case = engine_cli.decode_argv(item["argv"])
            expect = None
            if res["builder_calls"] and isinstance(res["builder_calls"][0]["returned"], str):
                b = res["builder_calls"][0]["returned"]
                emitted.append(b)
                # the version the CLI asked the builder for is the one requested
                bv = res["builder_calls"][0]["args"][1]
                req = None
                if bv:
                    req = bv[0][1] if isinstance(bv[0], list) else str(bv[0])
                vio += validate("builder-via-cli", b, self.ctors, req if req in spec.VERSIONS else None)
                expect = spec.version_of_emitted(b)
            elif case["vector"]:
                try:
                    self.ctors[spec.CLASS_OF[case["selected"]]](case["vector"])
                    expect = spec.version_of_emitted(case["vector"])
                except Exception:
                    expect = None
            # (the emitted string is the first column of its line; further columns are presentation)
            if isinstance(view["clean"], str) and view["clean"].split():
                cl = view["clean"].split()[0]
                emitted.append(cl)
                vio += validate("cli-cleaned-vector", cl, self.ctors, expect)
            if isinstance(view["rh"], str) and view["rh"].split():
                rh = view["rh"].split()[0]
                emitted.append(rh)
                vio += validate("cli-redhat-vector", rh_vector_part(rh), self.ctors, expect)
            dg = runner23.digest([item["argv"], res["events"], res["stdout"], res["exit"]])
            steps = res["reads"] + 1
        elif item["ops"][0]["op"] == "new":
            expect = spec.version_of_emitted(item["ops"][0]["s"])
            for op, r in zip(item["ops"][1:], res["results"][1:]):
                if "ok" not in r:
                    continue
                sval = r["ok"]
                what = "%s(%s)" % (op["m"], ",".join("%s=%s" % kv for kv in sorted(op["args"].items())))
                if op["m"] == "rh_vector":
                    emitted.append(sval)
                    vio += validate("rh_vector() [after other emitters]", rh_vector_part(sval) if isinstance(sval, str) else sval, self.ctors, expect)
                elif op["args"].get("output_prefix") is False:
                    full = spec.PREFIX[expect] + sval if isinstance(sval, str) else sval
                    emitted.append(full)
                    vio += validate("clean_vector(output_prefix=False) [prefix re-attached]", full, self.ctors, expect)
                else:
                    emitted.append(sval)
                    vio += validate(what + " [after other emitters]", sval, self.ctors, expect)
            counters["pure_clause_sampled"] = 1
            dg = runner23.digest([item["ops"], res["results"]])
            steps = len(item["ops"])
        else:
            r = res["results"][0]
            if "ok" in r:
                ob = r["ok"]
                expect = spec.version_of_emitted(item["ops"][0]["s"])
                emitted.append(ob["clean"])
                vio += validate("clean_vector()", ob["clean"], self.ctors, expect)
                emitted.append(ob["rh"])
                vio += validate("rh_vector()", rh_vector_part(ob["rh"]), self.ctors, expect)
                if "clean_noprefix" in ob:
                    full = spec.PREFIX[expect] + ob["clean_noprefix"]
                    if full != ob["clean"]:
                        vio.append(violation(PROP, "prefix", "clean_vector(output_prefix=False):%s" % expect,
                                             "clean_vector(output_prefix=False) %r is not clean_vector() without its prefix" % ob["clean_noprefix"][:80]))
                counters["pure_clause_sampled"] = 1
            dg = runner23.digest([item["ops"][0]["s"], r])
            steps = 1
        counters["emitted_strings"] = len(emitted)
        nontrivial = []
        for s in emitted:
            v = spec.version_of_emitted(rh_vector_part(s) if s[:1].isdigit() else s)
            sp = spec.SPECS[v]
            body = (rh_vector_part(s) if s[:1].isdigit() else s)[len(sp.prefix):]
            defined_optional = [f for f in body.split("/") if ":" in f and f.split(":")[0] in sp.optional and f.split(":")[1] != sp.nd]
            if defined_optional:
                nontrivial.append(s)
        # one digest per run; distinct non-trivial *strings* are counted through the extra set
        return {"trace": trace, "digest": dg, "violations": vio, "counters": counters,
                "nontrivial": bool(nontrivial), "steps": steps,
                "sets": {"nontrivial_strings": [int(runner23.digest(s)[:15], 16) for s in nontrivial]},
                "sample": {"kind": item["k"], "item": dict((k, v) for k, v in item.items() if k != "script"),
                           "script": (item.get("script") or [])[:34], "emitted": emitted[:3]},
                "result": res}

    def trace_size(self, trace):
        it = trace["item"]
        if it["k"] == "api":
            return len(it["ops"][0]["s"]) + 10 * len(it["ops"])
        n = len(it["script"]) * 4 + sum(min(len(a[1]), 40) for a in it["script"])
        if it["k"] == "cli":
            n += 3 * len(it["argv"]) + sum(min(len(a), 300) for a in it["argv"])
        else:
            n += 2 if it["all"] else 0
        return n

    def shrink_candidates(self, trace):
        it = trace["item"]

        def with_item(**kw):
            t = dict(trace)
            t["item"] = dict(it)
            t["item"].update(kw)
            return t

        if it["k"] == "api":
            op = it["ops"][0]
            if len(it["ops"]) > 2:
                for cand in list_deletions(it["ops"][1:]):
                    if cand:
                        yield with_item(ops=[op] + cand)
            prefix = spec.PREFIX[spec.version_of_emitted(op["s"])]
            fields = op["s"][len(prefix):].split("/")
            for cand in list_deletions(fields):
                if cand:
                    o = dict(op)
                    o["s"] = prefix + "/".join(cand)
                    yield with_item(ops=[o] + it["ops"][1:])
            return
        for cand in list_deletions(it["script"]):
            yield with_item(script=cand)
        if it["k"] == "builder":
            if it["all"]:
                yield with_item(all=False)
            return
        argv = it["argv"]
        for i in range(len(argv)):
            yield with_item(argv=argv[:i] + argv[i + 1:])
        for i, a in enumerate(argv):
            if a.startswith("--vector="):
                v = a[len("--vector="):]
                prefix = spec.PREFIX[spec.version_of_emitted(v)]
                fields = v[len(prefix):].split("/")
                for cand in list_deletions(fields):
                    if cand:
                        yield with_item(argv=argv[:i] + ["--vector=" + prefix + "/".join(cand)] + argv[i + 1:])


def make_engine(seed=0):
    return EmitEngine(seed)

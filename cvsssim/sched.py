# -*- coding: utf-8 -*-
"""
Seeded thread scheduler (seam S5): real threading.Thread objects, exactly one runnable at any time
(baton passing over per-thread semaphores).  Pre-emption points are
  * "line":        sys.settrace line events in frames whose code lives under <repo>/cvss/, or
  * "instruction": sys.monitoring INSTRUCTION events of the code objects of the cvss modules
                   (a real CPython thread switch can fall between two bytecodes of one line).
At every point the decider says stay or switch; every decision actually taken is recorded as
[global step, thread], so a replay needs no PRNG: it is a pure function of the recorded schedule
and the code.  Removing a recorded decision means "keep running the current thread".
"""
import sys
import threading
import traceback

HOT_FUNCS = frozenset([
    "parse_vector", "add_missing_optional", "check_mandatory", "handle_scope", "get_value",
    "get_value_description", "compute_base_score", "compute_temporal_score", "compute_environmental_score",
    "compute_isc", "compute_isc_base", "compute_esc", "compute_modified_isc", "compute_modified_isc_30",
    "compute_modified_isc_base", "compute_modified_esc", "as_json", "add_metric_to_data", "parse_cvss_from_text",
    "clean_vector", "macroVector", "m", "from_rh_vector", "__init__", "compute_severity", "round_up",
    "round_to_1_decimal", "final_rounding", "base_score_equation", "temporal_score_equation",
    "impact_equation", "adjusted_impact_equation", "extract_value_metric", "get_eq_maxes", "severities", "scores",
])


class StepCap(BaseException):
    """Raised inside a simulated thread when the run exceeds its step budget."""


class Deadlock(BaseException):
    """Raised inside a simulated thread that can never get the lock it waits for."""


class SeededDecider(object):
    """Draws every scheduling decision from the run's `schedule` stream."""

    def __init__(self, rng, mode, p=0.02, pct_points=None, hot_p=0.3):
        self.rng = rng
        self.mode = mode
        self.p = p
        self.hot_p = hot_p
        self.pct_points = set(pct_points or [])

    def first(self, alive):
        return self.rng.choice(alive)

    def at(self, step, me, others, func):
        if not others:
            return None
        if self.mode == "pct":
            if step in self.pct_points:
                return self.rng.choice(others)
            return None
        p = self.p
        if self.mode == "biased":
            p = self.hot_p if func in HOT_FUNCS else self.p / 10.0
        if self.rng.chance(p):
            return self.rng.choice(others)
        return None

    def at_exit(self, step, me, others):
        return self.rng.choice(others)

    def at_blocked(self, step, me, others):
        return self.rng.choice(others)


class ReplayDecider(object):
    """Replays a recorded schedule [[step, thread], ...]."""

    def __init__(self, schedule):
        self.map = dict((int(s), int(t)) for s, t in schedule)

    def first(self, alive):
        t = self.map.get(0)
        return t if t in alive else alive[0]

    def at(self, step, me, others, func):
        t = self.map.get(step)
        if t is not None and t in others:
            return t
        return None

    def at_exit(self, step, me, others):
        t = self.map.get(step)
        if t is not None and t in others:
            return t
        return others[0]

    def at_blocked(self, step, me, others):
        t = self.map.get(step)
        if t is not None and t in others:
            return t
        return others[0]


def _code_objects(prefix):
    """All code objects of modules whose file lies under prefix (functions, methods, nested)."""
    import types

    seen = set()
    out = []

    def walk(code):
        if id(code) in seen:
            return
        seen.add(id(code))
        if code.co_filename.startswith(prefix):
            out.append(code)
        for c in code.co_consts:
            if isinstance(c, types.CodeType):
                walk(c)

    for name, mod in list(sys.modules.items()):
        f = getattr(mod, "__file__", None) or ""
        if not f.startswith(prefix):
            continue
        for v in list(vars(mod).values()):
            if isinstance(v, types.FunctionType):
                walk(v.__code__)
            elif isinstance(v, type) and (getattr(v, "__module__", "") or "").startswith("cvss"):
                for a in list(vars(v).values()):
                    fn = getattr(a, "__func__", a)
                    if isinstance(fn, types.FunctionType):
                        walk(fn.__code__)
    return out


class Sched(object):
    def __init__(self, n, prefix, decider, granularity="line", max_steps=300000):
        self.n = n
        self.prefix = prefix
        self.decider = decider
        self.granularity = granularity
        self.max_steps = max_steps
        self.sems = [threading.Semaphore(0) for _ in range(n)]
        self.alive = [True] * n
        self.current = -1
        self.step = 0
        self.taken = []          # [[step, thread]] decisions actually taken (incl. [0, first])
        self.switch_log = []     # [step, from, to, function, line] at line/instruction points
        self.done = threading.Event()
        self.errors = []
        self.capped = False
        self.funcs = ["-"] * n   # function each thread is currently parked/running in
        self.states = set()      # distinct tuples of funcs observed at switch points
        self.same_func_preempt = {}
        self.idents = {}
        self.active = False
        self.lock_waits = 0
        self.deadlocked = False

    # ---- pre-emption point -------------------------------------------------------------
    def point(self, func, line):
        me = self.current
        self.step += 1
        if self.step > self.max_steps:
            self.capped = True
            raise StepCap()
        others = [i for i in range(self.n) if self.alive[i] and i != me]
        to = self.decider.at(self.step, me, others, func)
        if to is None or to == me:
            return
        self.funcs[me] = func
        self.taken.append([self.step, to])
        self.switch_log.append([self.step, me, to, func, line])
        self.states.add(tuple(self.funcs))
        if self.funcs[to] == func:
            self.same_func_preempt[func] = self.same_func_preempt.get(func, 0) + 1
        self.current = to
        self.sems[to].release()
        self.sems[me].acquire()

    # ---- blocked on a lock (simlock.SimLock) ----------------------------------------------
    def is_current_sim_thread(self):
        return self.active and self.idents.get(threading.get_ident()) == self.current and self.current >= 0

    def blocked(self, spins):
        """The running simulated thread cannot get a lock: another simulated thread must run."""
        me = self.current
        self.step += 1
        self.lock_waits += 1
        others = [i for i in range(self.n) if self.alive[i] and i != me]
        if not others or spins > 20000:
            # nobody else can release it (or everybody keeps waiting for everybody): a dead-lock
            self.deadlocked = True
            raise Deadlock()
        to = self.decider.at_blocked(self.step, me, others)
        self.taken.append([self.step, to])
        self.switch_log.append([self.step, me, to, "<blocked-on-lock>", 0])
        self.current = to
        self.sems[to].release()
        self.sems[me].acquire()

    def _gtrace(self, frame, event, arg):
        if frame.f_code.co_filename.startswith(self.prefix):
            return self._ltrace
        return None

    def _ltrace(self, frame, event, arg):
        if event == "line":
            self.point(frame.f_code.co_name, frame.f_lineno)
        return self._ltrace

    def _instr(self, code, offset):
        if not self.active:
            return
        if self.idents.get(threading.get_ident()) != self.current:
            return
        self.point(code.co_name, offset)

    # ---- thread life cycle -------------------------------------------------------------
    def _body(self, i, fn):
        self.sems[i].acquire()
        self.idents[threading.get_ident()] = i
        if self.granularity == "line":
            sys.settrace(self._gtrace)
        try:
            fn()
        except (StepCap, Deadlock):
            pass
        except BaseException:  # noqa: B902 - a harness bug inside a simulated thread
            self.errors.append(traceback.format_exc())
        finally:
            if self.granularity == "line":
                sys.settrace(None)
            self._finish(i)

    def _finish(self, me):
        self.alive[me] = False
        self.funcs[me] = "-"
        self.step += 1
        others = [i for i in range(self.n) if self.alive[i]]
        if not others:
            self.done.set()
            return
        to = self.decider.at_exit(self.step, me, others)
        self.taken.append([self.step, to])
        self.current = to
        self.sems[to].release()

    def run(self, fns, timeout=600.0):
        """fns: one callable per simulated thread. Returns when all have finished."""
        threads = [threading.Thread(target=self._body, args=(i, fn), name="sim-%d" % i) for i, fn in enumerate(fns)]
        for t in threads:
            t.daemon = True
            t.start()
        mon = None
        codes = []
        if self.granularity == "instruction":
            mon = sys.monitoring
            self.tool = 3
            try:
                mon.use_tool_id(self.tool, "cvsssim")
            except ValueError:
                mon.free_tool_id(self.tool)
                mon.use_tool_id(self.tool, "cvsssim")
            mon.register_callback(self.tool, mon.events.INSTRUCTION, self._instr)
            codes = _code_objects(self.prefix)
            for c in codes:
                mon.set_local_events(self.tool, c, mon.events.INSTRUCTION)
        from . import simlock

        simlock.ACTIVE = self
        self.active = True
        first = self.decider.first(list(range(self.n)))
        self.taken.append([0, first])
        self.current = first
        self.sems[first].release()
        finished = self.done.wait(timeout)
        self.active = False
        simlock.ACTIVE = None
        if mon is not None:
            for c in codes:
                mon.set_local_events(self.tool, c, 0)
            mon.register_callback(self.tool, mon.events.INSTRUCTION, None)
            mon.free_tool_id(self.tool)
        if not finished:
            self.errors.append("simulated threads did not finish within %.0f s (step %d)" % (timeout, self.step))
            return False
        for t in threads:
            t.join(5)
        return True

# -*- coding: utf-8 -*-
"""
C20 -- identical behaviour on every supported interpreter (DESIGN 3.6).

What deterministic simulation contributes here is its replay guarantee: a recorded trace (API ops,
terminal sessions with their faults, CLI invocations with argv/stdin/EOF) is a complete,
environment-free description of a run, so executing *the same trace* under another interpreter
isolates the interpreter as the only variable.  runner23.py (Python 2/3 common subset) executes the
trace under each /root/.pyenv/versions/*/bin/python with sys.path[0] = <repo>; /venv's 3.12 is the
reference; per-item results are diffed mechanically.  A sampled subset of CLI items additionally
runs as real `python -m cvss.cvss_calculator` child processes of each interpreter.
"""
import concurrent.futures
import json
import os
import subprocess
import sys

from . import core, engine_builder, engine_cli, runner23, setup_check, spec, vectors
from .core import HarnessError, list_deletions, violation
from .rng import Rng, mix

PROP = "C20"
REFERENCE = "/venv/bin/python"
RUNNER = os.path.join(os.path.dirname(os.path.abspath(__file__)), "runner23.py")
CHILD_ENV = {"PYTHONHASHSEED": "0", "PYTHONDONTWRITEBYTECODE": "1", "PYTHONIOENCODING": "utf-8", "LANG": "C.UTF-8",
             "LC_ALL": "C.UTF-8", "PATH": "/usr/bin:/bin", "HOME": "/nonexistent"}


RH_SCORES = ["0.0", "5.0", "7.5", "9.8", "10.0", "10", "x", "", " 7.5", "7.5 ", "7.50", "1e1", "+7.5", "-0.0", ".5", "5.",
             "7_5", "1_0.0", "nan", "inf", "Infinity", "0x10", "7,5", "7.5\t", "\uff17.\uff15", "1E1", "00007.5", "7.5e0",
             "1" * 400, "7.5/7.5",
             # decimal digits of scripts that entered Unicode after 5.2 (the data base of CPython 2.7): whether
             # float() reads them depends on the interpreter's unicodedata version (finding F10)
             u"\U000112F7.5", u"\U0001E957.5", u"\U00011DA7.5", u"\U0001E147.5", u"\U0001FBF7.5", u"\U00011957.5",
             u"\U00016AC7.5", u"\U0001E4F7.5", u"1\U0001E4F0.0"]

# first code point of the digit block -> Unicode version that introduced it (only the blocks generated above)
NEW_DIGIT_BLOCKS = {0x112F0: 7, 0x1E950: 9, 0x11DA0: 11, 0x1E140: 12, 0x1FBF0: 13, 0x11950: 13, 0x16AC0: 14, 0x1E4F0: 15}


def new_digit_version(text):
    """Highest Unicode version needed to read the digits of `text` (0: none of the listed blocks)."""
    need = 0
    for ch in text:
        o = ord(ch)
        for zero, ver in NEW_DIGIT_BLOCKS.items():
            if zero <= o <= zero + 9:
                need = max(need, ver)
    return need


def is_ascii(s):
    try:
        s.encode("ascii")
        return True
    except UnicodeError:
        return False


def is_plain(s):
    """ASCII without the control characters FS/GS/RS/US, which Python 3's str.strip() treats as
    white space and Python 2's byte-string strip() does not."""
    return is_ascii(s) and not any(c in s for c in "\x1c\x1d\x1e\x1f")


# ---------------------------------------------------------------------------------------------
# generation of items (under the reference interpreter: this process)
# ---------------------------------------------------------------------------------------------


class Generator(object):
    def __init__(self, seed):
        self.seed = seed
        self.labels = dict((v, spec.label_map(v)) for v in spec.VERSIONS)

    def item(self, index):
        if index == 0:
            return {"k": "api", "ops": [{"op": "import_all"}], "cls": "import"}
        rng = Rng(mix(self.seed, PROP, index))
        kind = rng.weighted([("api", 5), ("builder", 2), ("cli", 3)])
        if kind == "api":
            ops = []
            classes = set()
            for _ in range(rng.between(1, 4)):
                r = rng.below(100)
                version = rng.choice(list(spec.VERSIONS))
                cls = spec.CLASS_OF[version]
                if r < 60:
                    vclass, s = vectors.any_vector(rng, version, p_valid=0.65)
                    ops.append({"op": "observe", "cls": cls, "how": "ctor", "s": s})
                    classes.add(vclass.split(".")[0])
                elif r < 75:
                    # Red Hat notation: any score spelling x any vector part (valid, one edit away,
                    # other version, garbage) -- the error path matters as much as the happy path
                    vclass, v = vectors.any_vector(rng, version, p_valid=0.6)
                    score = rng.choice(RH_SCORES)
                    ops.append({"op": "observe", "cls": cls, "how": "rh", "s": score + "/" + v})
                    classes.add("rh")
                else:
                    ops.append({"op": "text", "s": vectors.text_with_vectors(rng)})
                    classes.add("text")
            nonascii = any(not is_ascii(op.get("s", "")) for op in ops)
            return {"k": "api", "ops": ops, "cls": "+".join(sorted(classes)) + ("+nonascii" if nonascii else "")}
        if kind == "builder":
            sw = engine_builder.draw_swarm(rng.fork("swarm"))
            agent = engine_builder.LiveAgent(rng.fork("workload"), rng.fork("faults"), sw, sw["version"], sw["all"],
                                             self.labels[sw["version"]])
            rec = runner23.ScriptAgent([], fallback=agent)
            runner23.run_builder(sw["version"], sw["all"], sw["nocolor"], rec, 300)
            script = rec.served
            nonascii = any(not is_plain(a[1]) for a in script)
            return {"k": "builder", "version": sw["version"], "all": sw["all"], "nocolor": sw["nocolor"], "script": script,
                    "cap": 300, "cls": "v%s%s" % (sw["version"], "+exotic-stdin" if nonascii else "")}
        case = engine_cli.draw_case(rng.fork("argv"))
        sw = engine_builder.draw_swarm(rng.fork("swarm"), version=case["selected"])
        sw["all"] = case["flags"]["a"]
        sw["w_legal"] = max(sw["w_legal"], 10)
        agent = engine_builder.LiveAgent(rng.fork("workload"), rng.fork("faults"), sw, case["selected"], sw["all"],
                                         self.labels[case["selected"]])
        rec = runner23.ScriptAgent([], fallback=agent)
        runner23.run_cli(case["argv"], rec, 300)
        nonascii_argv = any(not is_ascii(a) for a in case["argv"])
        nonascii_stdin = any(not is_plain(a[1]) for a in rec.served)
        cls = "%s:%s%s%s%s" % ("".join(sorted(f for f in ("-2", "-3", "-4") if f in case["argv"])) or "default",
                               "interactive" if case["interactive"] else (case["vclass"] or "").split(".")[0],
                               "+json" if case["flags"]["j"] else "", "+nonascii-argv" if nonascii_argv else "",
                               "+exotic-stdin" if nonascii_stdin else "")
        return {"k": "cli", "argv": case["argv"], "script": rec.served, "cap": 300, "cls": cls}


def item_class(item):
    """Input class of an item, computed from its content alone (so that a shrunk or hand-written
    item cannot carry a stale label). Part of the violation signature."""
    if item["k"] == "api":
        if item["ops"] and item["ops"][0]["op"] == "import_all":
            return "import"
        if any(op.get("how") == "rh" and "_" in op.get("s", "").split("/", 1)[0] for op in item["ops"]):
            return "rh-underscore-score"
        need = max([0] + [new_digit_version(op.get("s", "").split("/", 1)[0]) for op in item["ops"] if op.get("how") == "rh"])
        if need:
            return "rh-unicode%d-digit-score" % need
        return "nonascii" if any(not is_ascii(op.get("s", "")) for op in item["ops"]) else "ascii"
    exotic = any(not is_plain(a[1]) for a in item.get("script", []))
    if item["k"] == "builder":
        return "v%s%s" % (item["version"], "+exotic-stdin" if exotic else "")
    case = engine_cli.decode_argv(item["argv"])
    flags = "".join(sorted(set(f for f in item["argv"] if f in ("-2", "-3", "-4")))) or "default"
    return "%s:%s%s%s%s" % (flags, "interactive" if case["interactive"] else "vector", "+json" if case["flags"]["j"] else "",
                            "+nonascii-argv" if any(not is_ascii(a) for a in item["argv"]) else "",
                            "+exotic-stdin" if (exotic and case["interactive"]) else "")


# ---------------------------------------------------------------------------------------------
# running a list of items under one interpreter
# ---------------------------------------------------------------------------------------------


def run_under(python, items, workdir, tag, timeout=900):
    """Execute items with runner23 under `python`. -> parsed output dict."""
    tpath = os.path.join(workdir, "trace-%s.json" % tag)
    opath = os.path.join(workdir, "out-%s.json" % tag)
    with open(tpath, "w") as f:
        json.dump({"items": items}, f)
    env = dict(CHILD_ENV)
    p = subprocess.run([python, "-B", RUNNER, core.repo_dir(), tpath, opath], stdout=subprocess.PIPE, stderr=subprocess.PIPE,
                       env=env, timeout=timeout, cwd=workdir)
    if not os.path.exists(opath):
        return {"runner_failed": p.returncode, "stderr": p.stderr.decode("utf-8", "replace")[-2000:], "results": []}
    with open(opath) as f:
        out = json.load(f)
    os.remove(opath)
    os.remove(tpath)
    if p.stderr:
        out["runner_stderr"] = p.stderr.decode("utf-8", "replace")[-2000:]
    return out


def run_real_cli(python, item, timeout=60):
    """The CLI item as a real child process of `python` (argv as real OS bytes, stdin a pipe)."""
    repo = core.repo_dir()
    env = dict(CHILD_ENV)
    env["PYTHONPATH"] = repo
    argv = [a.encode("utf-8") for a in item["argv"]]
    try:
        p = subprocess.run([python.encode(), b"-m", b"cvss.cvss_calculator"] + argv, input=engine_cli.stdin_bytes(item["script"]),
                           stdout=subprocess.PIPE, stderr=subprocess.PIPE, cwd=repo, env=env, timeout=timeout)
    except subprocess.TimeoutExpired:
        return {"exit": "timeout", "stdout": "", "stderr_empty": True, "stderr_tail": ""}
    err = p.stderr.decode("utf-8", "replace")
    return {"exit": p.returncode, "stdout": p.stdout.decode("utf-8", "replace"), "stderr_empty": not err,
            "stderr_tail": err.strip().splitlines()[-1][:200] if err.strip() else ""}


# ---------------------------------------------------------------------------------------------
# comparing one item's result with the reference
# ---------------------------------------------------------------------------------------------


def _op_field(got, ref):
    from .engine_state import diff_fields

    return diff_fields(got, ref)


def compare(interp, item, got, ref):
    """-> list of violations (signature: interpreter / item kind / field / input class)."""
    vio = []
    cls = item_class(item)
    if "runner_exc" in got or "runner_exc" in ref:
        if got != ref:
            vio.append(violation(PROP, interp, "%s:runner-exception:%s" % (item["k"], cls),
                                 "python %s: executing the item failed: %s (reference: %s)" %
                                 (interp, got.get("runner_exc"), ref.get("runner_exc", "ok"))))
        return vio
    if item["k"] == "api":
        for k, (g, r) in enumerate(zip(got["results"], ref["results"])):
            if g == r:
                continue
            op = item["ops"][k]
            if op["op"] == "import_all":
                for gi, ri in zip(g.get("ok", []), r.get("ok", [])):
                    if gi != ri:
                        vio.append(violation(PROP, interp, "import:%s" % gi[0],
                                             "python %s: cvss/%s compile=%r import=%r (reference: compile=%r import=%r)" %
                                             (interp, gi[0], gi[1], gi[2], ri[1], ri[2])))
                if not vio:
                    vio.append(violation(PROP, interp, "import:?", "python %s: import record differs: %r" % (interp, g)))
                continue
            field = _op_field(g, r)
            what = "%s.%s" % (op.get("cls", "parse_cvss_from_text"), "from_rh_vector" if op.get("how") == "rh" else op["op"])
            from .engine_state import clip, short_op

            opcls = "nonascii" if not is_ascii(op.get("s", "")) else "ascii"
            if op.get("how") == "rh" and "_" in op.get("s", "").split("/", 1)[0]:
                opcls = "rh-underscore-score"
            elif op.get("how") == "rh" and new_digit_version(op.get("s", "").split("/", 1)[0]):
                opcls = "rh-unicode%d-digit-score" % new_digit_version(op.get("s", "").split("/", 1)[0])
            vio.append(violation(PROP, interp, "api:%s:%s:%s" % (what, field, opcls),
                                 "python %s: %s differs from the reference interpreter in %s: got %s, reference %s" %
                                 (interp, short_op(op), field, clip(g, field, r), clip(r, field, g))))
        return vio
    if item["k"] == "builder":
        for key in ("returned", "exc", "aborted", "stderr"):
            if got.get(key) != ref.get(key):
                vio.append(violation(PROP, interp, "builder:%s:%s" % (key, cls),
                                     "python %s: builder v%s all=%s: %s is %r, reference %r" %
                                     (interp, item["version"], item["all"], key, got.get(key), ref.get(key))))
                return vio
        if got.get("events") != ref.get("events"):
            vio.append(violation(PROP, interp, "builder:dialogue:%s" % cls,
                                 "python %s: builder v%s all=%s: the prompt/answer dialogue differs from the reference interpreter" %
                                 (interp, item["version"], item["all"])))
        return vio
    # cli
    if _abbreviation_refused(item, got.get("exit"), got.get("stderr", "")) or _abbreviation_refused(item, ref.get("exit"), ref.get("stderr", "")):
        # an abbreviated long option refused with a usage message by one interpreter's argument parser
        # (Python 2 has no allow_abbrev switch): outside the documented spellings, see engine_cli.judge
        return vio
    for key in ("exit", "exc", "aborted"):
        if got.get(key) != ref.get(key):
            vio.append(violation(PROP, interp, "cli:%s:%s" % (key, cls),
                                 "python %s: argv=%r: %s is %r, reference %r" % (interp, item["argv"], key, got.get(key), ref.get(key))))
            return vio
    if bool(got.get("stderr")) != bool(ref.get("stderr")):
        vio.append(violation(PROP, interp, "cli:stderr:%s" % cls,
                             "python %s: argv=%r: stderr %r, reference %r" % (interp, item["argv"], got.get("stderr", "")[-160:], ref.get("stderr", "")[-160:])))
        return vio
    if got.get("stdout") != ref.get("stdout"):
        g, r = got.get("stdout", ""), ref.get("stdout", "")
        gl, rl = g.split("\n"), r.split("\n")
        first = next((i for i, (a, b) in enumerate(zip(gl, rl)) if a != b), min(len(gl), len(rl)))
        ga = gl[first] if first < len(gl) else "<end>"
        ra = rl[first] if first < len(rl) else "<end>"
        kind = "stdout"
        if [x.rstrip() for x in gl] == [x.rstrip() for x in rl]:
            kind = "stdout-trailing-blanks"
        vio.append(violation(PROP, interp, "cli:%s:%s" % (kind, cls),
                             "python %s: argv=%r: stdout differs from the reference at line %d: %r vs %r" %
                             (interp, item["argv"], first + 1, ga[:120], ra[:120])))
    elif [c.get("returned") for c in got.get("builder_calls", [])] != [c.get("returned") for c in ref.get("builder_calls", [])]:
        vio.append(violation(PROP, interp, "cli:builder-result:%s" % cls,
                             "python %s: argv=%r: the interactively built vector differs" % (interp, item["argv"])))
    return vio


def _abbreviation_refused(item, exit_status, stderr_text):
    return exit_status == 2 and "usage" in (stderr_text or "").lower() and engine_cli.decode_argv(item["argv"])["abbrev"]


def compare_real(interp, item, got, ref):
    vio = []
    cls = item_class(item)
    if engine_cli.decode_argv(item["argv"])["abbrev"] and 2 in (got["exit"], ref["exit"]):
        return vio
    for key in ("exit", "stderr_empty", "stdout"):
        if got[key] != ref[key]:
            kind = key
            if key == "stdout" and [x.rstrip() for x in got[key].split("\n")] == [x.rstrip() for x in ref[key].split("\n")]:
                kind = "stdout-trailing-blanks"
            vio.append(violation(PROP, interp, "real-cli:%s:%s" % (kind, cls),
                                 "python %s: real child process argv=%r: %s is %r, reference %r%s" %
                                 (interp, item["argv"], key, got[key] if key != "stdout" else got[key][-160:],
                                  ref[key] if key != "stdout" else ref[key][-160:],
                                  (" (stderr: %s)" % got["stderr_tail"]) if got.get("stderr_tail") else "")))
            break
    return vio


# ---------------------------------------------------------------------------------------------
# engine (replay / shrink of single items)
# ---------------------------------------------------------------------------------------------


class XEngine(object):
    prop = PROP

    def __init__(self, seed=0):
        self.seed = seed
        self.interps = dict(setup_check.interpreters())

    def execute(self, trace, shrinking=False):
        interp = trace["interpreter"]
        py = self.interps.get(interp)
        if py is None:
            raise HarnessError("interpreter %s is not installed" % interp)
        item = trace["item"]
        wd = core.tmp_dir()
        tag = "%d-%s" % (os.getpid(), runner23.digest(item)[:8])
        if trace.get("real"):
            got = run_real_cli(py, item)
            ref = run_real_cli(REFERENCE, item)
            vio = compare_real(interp, item, got, ref)
        else:
            ref = run_under(REFERENCE, [item], wd, tag + "-ref")
            got = run_under(py, [item], wd, tag + "-x")
            if not ref.get("results"):
                raise HarnessError("reference interpreter failed: %s" % ref.get("stderr"))
            if not got.get("results"):
                got = {"results": [{"runner_exc": ["runner-died", got.get("stderr", "")[-300:]]}]}
            got, ref = got["results"][0], ref["results"][0]
            vio = compare(interp, item, got, ref)
        dg = runner23.digest([interp, item, got])
        return {"trace": dict(trace), "digest": dg, "violations": vio, "counters": {}, "nontrivial": True, "steps": 1}

    def trace_size(self, trace):
        it = trace["item"]
        n = len(json.dumps(it))
        return n

    def shrink_candidates(self, trace):
        it = trace["item"]

        def with_item(**kw):
            t = dict(trace)
            t["item"] = dict(it)
            t["item"].update(kw)
            return t

        if it["k"] == "api":
            for cand in list_deletions(it["ops"]):
                if cand:
                    yield with_item(ops=cand)
            for i, op in enumerate(it["ops"]):
                s = op.get("s")
                if s and s.count("/") > 2:
                    fields = s.split("/")
                    for cand in list_deletions(fields):
                        if cand:
                            ops = list(it["ops"])
                            ops[i] = dict(op, s="/".join(cand))
                            yield with_item(ops=ops)
            return
        for cand in list_deletions(it["script"]):
            yield with_item(script=cand)
        if it["k"] == "cli":
            argv = it["argv"]
            i = 0
            while i < len(argv):
                width = 2 if argv[i] in ("-v", "--vector") else 1
                yield with_item(argv=argv[:i] + argv[i + width:])
                i += width
        elif it.get("all"):
            yield with_item(all=False)


def make_engine(seed=0):
    return XEngine(seed)

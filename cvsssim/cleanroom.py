# -*- coding: utf-8 -*-
"""
Clean room (DESIGN 3.5, oracle 1): a fork server that imports `cvss` from the tree and then does
nothing; every request forks a child that evaluates exactly ONE op -- single thread, default
decimal context, PYTHONHASHSEED=0, no earlier API call in the process -- and returns its canonical
result.  It is the history-free, schedule-free, default-environment reference against which every
result observed inside a simulated run is compared.

Server side:  python cleanroom.py <repo> <verif>      (line-delimited JSON on stdin/stdout)
Client side:  CleanRoom().eval(op)
"""
import json
import os
import subprocess
import sys


def _light_snapshot():
    import decimal
    import warnings

    def ctx(c):
        return [c.prec, c.rounding, c.Emin, c.Emax, c.capitals, c.clamp, sorted((str(k), bool(v)) for k, v in c.traps.items())]

    snap = {
        "sys.path": list(sys.path),
        "warnings.filters": repr(list(warnings.filters)),
        "os.environ": sorted(os.environ.items()),
        "os.getcwd": os.getcwd(),
        "sys.getrecursionlimit": sys.getrecursionlimit(),
        "decimal.getcontext()": ctx(decimal.getcontext()),
        "decimal.DefaultContext": ctx(decimal.DefaultContext),
        "decimal.BasicContext": ctx(decimal.BasicContext),
        "decimal.ExtendedContext": ctx(decimal.ExtendedContext),
    }
    snap.update(process_settings())
    return snap


def process_settings():
    """Further process-wide settings a calculator library has no business touching, at import or later
    (same spirit as the four items the statement lists). Every value is a short string."""
    import gc
    import locale
    import logging
    import random
    import signal
    import threading

    try:
        import builtins
    except ImportError:  # Python 2
        import __builtin__ as builtins
    out = {}
    out["logging.root"] = repr((logging.root.level, [type(h).__name__ for h in logging.root.handlers], logging.root.disabled,
                                logging.root.manager.disable, logging.raiseExceptions, logging.getLoggerClass().__name__))
    out["sys.hooks"] = repr((id(sys.excepthook), id(sys.displayhook), id(getattr(threading, "excepthook", None)),
                             id(getattr(sys, "unraisablehook", None))))
    out["sys.settings"] = repr((getattr(sys, "getswitchinterval", lambda: None)(), sys.dont_write_bytecode, gc.isenabled(), gc.get_threshold()))
    out["builtins"] = repr(sorted((k, id(v)) for k, v in vars(builtins).items() if k != "_"))
    try:
        out["signal.SIGINT"] = repr(signal.getsignal(signal.SIGINT))
    except ValueError:
        pass
    try:
        out["locale"] = repr(locale.setlocale(locale.LC_ALL, None))
    except Exception:  # noqa: B902
        pass
    out["random.getstate"] = repr(hash(random.getstate()))
    out["sys.meta_path/path_hooks"] = repr(([type(x).__name__ if not isinstance(x, type) else x.__name__ for x in sys.meta_path], len(sys.path_hooks)))
    out["sys.stdio.originals"] = repr((id(sys.__stdout__), id(sys.__stderr__), id(sys.__stdin__)))
    return out


class _Rec(object):
    def __init__(self):
        self.data = []

    def write(self, s):
        self.data.append(s if isinstance(s, str) else repr(s))
        return len(s)

    def flush(self):
        pass


def serve(repo, verif):
    sys.path.insert(0, verif)
    sys.path.insert(0, repo)
    inp = sys.stdin
    # protocol on the original stdout; anything the library prints goes elsewhere
    proto = os.fdopen(os.dup(sys.stdout.fileno()), "w")
    devnull = os.open(os.devnull, os.O_WRONLY)
    os.dup2(devnull, 1)
    os.dup2(devnull, 2)
    import decimal  # noqa: F401
    import warnings  # noqa: F401

    # what importing the package does to process-global state (request "IMPORT_EFFECTS")
    before = _light_snapshot()
    rec_out, rec_err = _Rec(), _Rec()
    saved = sys.stdout, sys.stderr
    sys.stdout, sys.stderr = rec_out, rec_err
    lib_only = set(process_settings())
    try:
        import cvss  # noqa: F401
        import cvss.parser  # noqa: F401

        middle = _light_snapshot()
        # the module of the command-line entry point: held to the items the statement lists, not to
        # the further settings (a CLI may e.g. call locale.setlocale at its start)
        import cvss.cvss_calculator  # noqa: F401
    finally:
        sys.stdout, sys.stderr = saved
    after = _light_snapshot()
    effects = sorted(k for k in before if before[k] != middle[k] or (k not in lib_only and middle[k] != after[k]))
    if rec_out.data:
        effects.append("writes-stdout")
    if rec_err.data:
        effects.append("writes-stderr")

    from cvsssim import runner23

    while True:
        line = inp.readline()
        if not line:
            break
        if line.strip() == "IMPORT_EFFECTS":
            proto.write(json.dumps({"import_effects": effects}) + "\n")
            proto.flush()
            continue
        op = json.loads(line)
        r, w = os.pipe()
        pid = os.fork()
        if pid == 0:
            try:
                os.close(r)
                res = runner23.Interp().run_op(op)
                data = runner23.dumps(res).encode("ascii")
                with os.fdopen(w, "wb") as f:
                    f.write(data)
            finally:
                os._exit(0)
        os.close(w)
        chunks = []
        with os.fdopen(r, "rb") as f:
            while True:
                b = f.read(65536)
                if not b:
                    break
                chunks.append(b)
        os.waitpid(pid, 0)
        data = b"".join(chunks).decode("ascii")
        if not data:
            data = runner23.dumps({"cleanroom_error": "child produced no result"})
        proto.write(data + "\n")
        proto.flush()


class CleanRoom(object):
    def __init__(self, repo, python=None):
        verif = os.path.dirname(os.path.dirname(os.path.abspath(__file__)))
        env = {"PYTHONHASHSEED": "0", "PYTHONDONTWRITEBYTECODE": "1", "PYTHONIOENCODING": "utf-8",
               "PATH": os.environ.get("PATH", "/usr/bin:/bin"), "LANG": "C.UTF-8", "LC_ALL": "C.UTF-8"}
        self.proc = subprocess.Popen([python or sys.executable, "-B", os.path.abspath(__file__), repo, verif],
                                     stdin=subprocess.PIPE, stdout=subprocess.PIPE, env=env, bufsize=0)
        self.cache = {}
        self.evals = 0

    def eval(self, op):
        key = json.dumps(op, sort_keys=True)
        if key in self.cache:
            return self.cache[key]
        self.proc.stdin.write((key + "\n").encode("utf-8"))
        self.proc.stdin.flush()
        line = self.proc.stdout.readline()
        if not line:
            raise RuntimeError("clean-room server died")
        res = json.loads(line.decode("ascii"))
        self.evals += 1
        if len(self.cache) > 200000:
            self.cache.clear()
        self.cache[key] = res
        return res

    def import_effects(self):
        """Names of the process-global state that differ before/after importing the package."""
        self.proc.stdin.write(b"IMPORT_EFFECTS\n")
        self.proc.stdin.flush()
        line = self.proc.stdout.readline()
        if not line:
            raise RuntimeError("clean-room server died")
        return json.loads(line.decode("ascii"))["import_effects"]

    def eval_many(self, ops):
        """Pipelined: all requests are written before the first answer is read."""
        keys = [json.dumps(op, sort_keys=True) for op in ops]
        todo = []
        for k in keys:
            if k not in self.cache and k not in todo:
                todo.append(k)
        # keep the pipe from filling up in both directions: chunks of 64 requests
        for i in range(0, len(todo), 64):
            part = todo[i:i + 64]
            self.proc.stdin.write(("\n".join(part) + "\n").encode("utf-8"))
            self.proc.stdin.flush()
            for k in part:
                line = self.proc.stdout.readline()
                if not line:
                    raise RuntimeError("clean-room server died")
                self.cache[k] = json.loads(line.decode("ascii"))
                self.evals += 1
        return [self.cache[k] for k in keys]

    def close(self):
        try:
            self.proc.stdin.close()
            self.proc.wait(10)
        except Exception:
            self.proc.kill()


if __name__ == "__main__":
    serve(sys.argv[1], sys.argv[2])

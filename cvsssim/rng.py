# -*- coding: utf-8 -*-
"""
Own PRNG (SplitMix64 seeding xoshiro256**), pure integer arithmetic, written in the Python 2/3
common subset.  `random.Random` gives different choice()/shuffle() results on 2.7 and 3.x, and the
traces of this framework must be identical wherever they are generated, so nothing here touches the
standard `random` module, `hash()` or a clock.

One integer decides everything: Rng(seed).fork("name") gives an independent named sub-stream, so
drawing one more number from one stream never shifts another.
"""
from __future__ import division, unicode_literals

MASK = (1 << 64) - 1


def _splitmix(x):
    x = (x + 0x9E3779B97F4A7C15) & MASK
    z = x
    z = ((z ^ (z >> 30)) * 0xBF58476D1CE4E5B9) & MASK
    z = ((z ^ (z >> 27)) * 0x94D049BB133111EB) & MASK
    return x, z ^ (z >> 31)


def fnv64(text):
    """Stable 64-bit string hash (FNV-1a over UTF-8 bytes); never Python's hash()."""
    h = 0xCBF29CE484222325
    for b in bytearray(text.encode("utf-8")):
        h ^= b
        h = (h * 0x100000001B3) & MASK
    return h


def mix(*parts):
    """Mix integers / strings into one 64-bit value, deterministically."""
    x = 0x243F6A8885A308D3
    for p in parts:
        if not isinstance(p, int) and not isinstance(p, type(1 << 70)):
            p = fnv64(p)
        x ^= p & MASK
        x, out = _splitmix(x)
        x = out
    return x


def _rotl(x, k):
    return ((x << k) & MASK) | (x >> (64 - k))


class Rng(object):
    def __init__(self, seed):
        self.seed = seed & MASK
        x = self.seed
        s = []
        for _ in range(4):
            x, out = _splitmix(x)
            s.append(out)
        self.s = s
        self.draws = 0

    def fork(self, name):
        return Rng(mix(self.seed, name))

    def next64(self):
        s = self.s
        result = (_rotl((s[1] * 5) & MASK, 7) * 9) & MASK
        t = (s[1] << 17) & MASK
        s[2] ^= s[0]
        s[3] ^= s[1]
        s[1] ^= s[2]
        s[0] ^= s[3]
        s[2] ^= t
        s[3] = _rotl(s[3], 45)
        self.draws += 1
        return result

    def below(self, n):
        """Uniform integer in [0, n)."""
        if n <= 1:
            return 0
        return (self.next64() * n) >> 64

    def between(self, lo, hi):
        """Uniform integer in [lo, hi]."""
        return lo + self.below(hi - lo + 1)

    def chance(self, p):
        """True with probability p (p a float in [0,1]; compared on a 2**30 integer grid)."""
        return self.below(1 << 30) < int(p * (1 << 30))

    def choice(self, seq):
        return seq[self.below(len(seq))]

    def weighted(self, pairs):
        """pairs: list of (item, non-negative integer weight)."""
        total = 0
        for _, w in pairs:
            total += w
        if total <= 0:
            return pairs[0][0]
        r = self.below(total)
        for item, w in pairs:
            if r < w:
                return item
            r -= w
        return pairs[-1][0]

    def shuffle(self, lst):
        for i in range(len(lst) - 1, 0, -1):
            j = self.below(i + 1)
            lst[i], lst[j] = lst[j], lst[i]
        return lst

    def sample(self, seq, k):
        lst = list(seq)
        self.shuffle(lst)
        return lst[:k]

    def subset(self, seq, p):
        return [x for x in seq if self.chance(p)]

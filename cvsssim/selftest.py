# -*- coding: utf-8 -*-
"""
Self-tests of the machinery itself (DESIGN 2.4, 2.5):

  determinism -- the same run indices give the same digests twice in one process, in a fresh
                 interpreter, under other PYTHONHASHSEEDs and with other worker counts;
  mutants     -- every planted bug (selftest/mutants.py) still passes the pinned tests and is
                 reported as VIOLATION by the quick tier of the check that should see it; negative
                 controls stay green.

Scratch copies live under $TMPDIR (outside /repo and /verif) and are removed immediately.
"""
import concurrent.futures
import hashlib
import json
import os
import shutil
import subprocess
import sys
import tempfile
import time

from . import core

PYTEST = ["/venv/bin/python", "-m", "pytest", "-q", "-x", "-p", "no:cacheprovider", "--timeout=900"]


def _load_mutants():
    sys.path.insert(0, os.path.join(core.VERIF, "selftest"))
    import mutants

    return mutants.M


def _baseline_pass_list():
    try:
        with open("/root/.vp/BASELINE.json") as f:
            return set(json.load(f)["stable_pass"])
    except Exception:
        return None


def make_copy(dst):
    src = core.repo_dir()
    shutil.copytree(src, dst, ignore=shutil.ignore_patterns(".git", "__pycache__", ".benchmarks", "*.pyc"))
    return dst


def apply_edits(root, edits):
    for f, old, new in edits:
        p = os.path.join(root, f)
        with open(p) as fh:
            s = fh.read()
        if s.count(old) != 1:
            raise core.HarnessError("mutant anchor occurs %d times in %s" % (s.count(old), f))
        with open(p, "w") as fh:
            fh.write(s.replace(old, new))


def run_tests(root):
    """The pinned suite in the copy: (#passed of the stable set, #failed of the stable set)."""
    junit = os.path.join(root, "junit.xml")
    env = dict(os.environ)
    env["PYTHONPATH"] = root
    env["PYTHONDONTWRITEBYTECODE"] = "1"
    cmd = ["/venv/bin/python", "-m", "pytest", "-q", "-p", "no:cacheprovider", "--timeout=900",
           "--continue-on-collection-errors", "--junitxml=" + junit]
    subprocess.run(cmd, cwd=root, env=env, stdout=subprocess.PIPE, stderr=subprocess.STDOUT, timeout=1200)
    import xml.etree.ElementTree as ET

    stable = _baseline_pass_list()
    passed, failed = 0, []
    for tc in ET.parse(junit).getroot().iter("testcase"):
        name = "%s::%s" % (tc.get("classname"), tc.get("name"))
        if stable is not None and name not in stable:
            continue
        bad = any(ch.tag in ("failure", "error") for ch in tc)
        if bad:
            failed.append(name)
        else:
            passed += 1
    os.remove(junit)
    return passed, failed


def run_check(prop, root, tier="quick", njobs=4, scale=None, timeout=1200):
    env = dict(os.environ)
    env["VERIF_REPO"] = root
    env["VERIF_JOBS"] = str(njobs)
    env.pop("CVSSSIM_CHILD", None)
    # the self-test must not overwrite the evidence of the real tree
    env["VERIF_EVIDENCE_DIR"] = os.path.join(root, "_evidence")
    env["VERIF_OUT_DIR"] = os.path.join(root, "_out")
    if scale:
        env["VERIF_SCALE"] = str(scale)
    p = subprocess.run([os.path.join(core.VERIF, "check"), prop, "--tier", tier], env=env, stdout=subprocess.PIPE,
                       stderr=subprocess.STDOUT, timeout=timeout, cwd=core.VERIF)
    return p.returncode, p.stdout.decode("utf-8", "replace")


def _one_mutant(m, props_all, keep_log):
    t0 = time.time()
    tmp = tempfile.mkdtemp(prefix="cvss-mut-")
    root = os.path.join(tmp, "repo")
    res = {"id": m["id"], "expect": m["expect"], "note": m["note"]}
    try:
        make_copy(root)
        apply_edits(root, m["edits"])
        passed, failed = run_tests(root)
        res["tests_passed"] = passed
        res["tests_failed"] = failed
        if failed:
            res["verdict"] = "killed-by-existing-tests"
            return res
        props = props_all if m["expect"] == "clean" else [m["expect"]]
        outcomes = {}
        for prop in props:
            code, out = run_check(prop, root)
            sigs = [ln for ln in out.splitlines() if ln.startswith("violation:")]
            outcomes[prop] = {"exit": code, "signatures": [s[:260] for s in sigs[:4]],
                              "tail": out.splitlines()[-1][:200] if out.splitlines() else ""}
            if keep_log and code not in (0, 1):
                outcomes[prop]["log"] = out[-3000:]
        res["checks"] = outcomes
        if m["expect"] == "clean":
            res["verdict"] = "ok-stays-green" if all(o["exit"] == 0 for o in outcomes.values()) else "FALSE-ALARM"
        else:
            o = outcomes[m["expect"]]
            res["verdict"] = "caught" if o["exit"] == 1 and o["signatures"] else ("HARNESS-ERROR" if o["exit"] == 2 else "MISSED")
        return res
    finally:
        shutil.rmtree(tmp, ignore_errors=True)
        res["wall_s"] = round(time.time() - t0, 1)


def mutants(only, tier):
    core.attach_repo()
    from . import checks

    props_all = sorted(checks.CHECKS)
    ms = _load_mutants()
    if only:
        ms = [m for m in ms if m["id"] in only or m["expect"] in only or any(m["id"].startswith(o) for o in only)]
    ms = [m for m in ms if m["expect"] == "clean" or m["expect"] in props_all]
    print("selftest-mutants: %d mutants, checks available: %s" % (len(ms), " ".join(props_all)))
    results = []
    with concurrent.futures.ThreadPoolExecutor(max_workers=4) as ex:
        futs = [ex.submit(_one_mutant, m, props_all, True) for m in ms]
        for f in futs:
            r = f.result()
            results.append(r)
            line = "%-44s expect=%-5s -> %-26s %5.1fs" % (r["id"], r["expect"], r["verdict"], r["wall_s"])
            if r["verdict"] == "caught":
                line += "  " + r["checks"][r["expect"]]["signatures"][0][11:150]
            print(line)
            if r["verdict"] in ("MISSED", "FALSE-ALARM", "HARNESS-ERROR"):
                print(json.dumps(r.get("checks"), indent=1)[:3000])
            sys.stdout.flush()
    os.makedirs(os.path.join(core.VERIF, "selftest"), exist_ok=True)
    with open(os.path.join(core.VERIF, "selftest", "mutants_result.json"), "w") as f:
        json.dump({"tier": tier, "results": results}, f, indent=1, sort_keys=True)
    bad = [r for r in results if r["verdict"] in ("MISSED", "FALSE-ALARM", "HARNESS-ERROR")]
    print("selftest-mutants: %d caught, %d green controls, %d killed by the existing tests, %d problems" % (
        sum(r["verdict"] == "caught" for r in results), sum(r["verdict"] == "ok-stays-green" for r in results),
        sum(r["verdict"] == "killed-by-existing-tests" for r in results), len(bad)))
    return 1 if bad else 0


# ---------------------------------------------------------------------------------------------
# determinism
# ---------------------------------------------------------------------------------------------


def _digests(prop, n, first, hashseed, extra_env=None):
    env = dict(os.environ)
    env.pop("CVSSSIM_CHILD", None)
    env["VERIF_KEEP_HASHSEED"] = "1"
    env["PYTHONHASHSEED"] = str(hashseed)
    env.update(extra_env or {})
    p = subprocess.run([os.path.join(core.VERIF, "check"), "digests", prop, "--n", str(n), "--first", str(first)],
                       env=env, stdout=subprocess.PIPE, stderr=subprocess.PIPE, timeout=3000, cwd=core.VERIF)
    if p.returncode != 0:
        raise core.HarnessError("digests %s failed: %s" % (prop, p.stderr.decode("utf-8", "replace")[-800:]))
    return p.stdout.decode("utf-8").splitlines()


def determinism(props, n):
    core.attach_repo()
    from . import checks

    props = props or sorted(checks.CHECKS)
    bad = 0
    for prop in props:
        t0 = time.time()
        nproc = 8
        per = max(1, n // nproc)
        variants = [("hashseed0", 0), ("hashseed0-again", 0), ("hashseed1", 1), ("hashseed4242", 4242)]
        runs = {}
        with concurrent.futures.ThreadPoolExecutor(max_workers=16) as ex:
            futs = {}
            for name, hs in variants:
                for k in range(nproc):
                    futs[(name, k)] = ex.submit(_digests, prop, per, k * per, hs)
            # one more variant: a single process computing the whole range (other process layout)
            futs[("one-process", 0)] = ex.submit(_digests, prop, per * nproc, 0, 0)
            for key, f in futs.items():
                runs[key] = f.result()
        ref = []
        for k in range(nproc):
            ref.extend(runs[("hashseed0", k)])
        ok = True
        for name in ["hashseed0-again", "hashseed1", "hashseed4242", "one-process"]:
            got = []
            if name == "one-process":
                got = runs[(name, 0)]
            else:
                for k in range(nproc):
                    got.extend(runs[(name, k)])
            if got != ref:
                ok = False
                for a, b in zip(ref, got):
                    if a != b:
                        print("DETERMINISM-FAILURE %s variant=%s first differing run:\n  ref: %s\n  got: %s" % (prop, name, a, b))
                        break
                else:
                    print("DETERMINISM-FAILURE %s variant=%s: %d vs %d lines" % (prop, name, len(ref), len(got)))
        h = hashlib.sha256("\n".join(ref).encode()).hexdigest()[:16]
        print("selftest-determinism %s: %d run indices x 5 variants (same seed twice, PYTHONHASHSEED 0/1/4242, 8 processes vs 1): %s  batch digest %s  %.1fs"
              % (prop, per * nproc, "identical" if ok else "DIFFERENT", h, time.time() - t0))
        if not ok:
            bad += 1
    return 2 if bad else 0


# ---------------------------------------------------------------------------------------------
# seeded changes written by independent sub-agents (/verif/seeded/<id>/)
# ---------------------------------------------------------------------------------------------


def _run_demo(root, demo, timeout=600):
    env = dict(os.environ)
    env["PYTHONPATH"] = root
    env["SEED_REPO"] = root
    env["PYTHONDONTWRITEBYTECODE"] = "1"
    env.pop("CVSSSIM_CHILD", None)
    # demos were written against a path like /tmp/seed-XXX: run a copy with that path rewritten
    with open(demo) as f:
        src = f.read()
    import re

    src = re.sub(r"/tmp/seed-C\d\d-[a-z0-9]+", root, src)
    # same relative place as in the sub-agent's worktree: <root>/_seeded/demo.py
    os.makedirs(os.path.join(root, "_seeded"), exist_ok=True)
    path = os.path.join(root, "_seeded", "demo.py")
    with open(path, "w") as f:
        f.write(src)
    try:
        p = subprocess.run(["/venv/bin/python", path], cwd=root, env=env, stdout=subprocess.PIPE, stderr=subprocess.STDOUT, timeout=timeout)
        return p.returncode, p.stdout.decode("utf-8", "replace")[-600:]
    except subprocess.TimeoutExpired:
        return "timeout", ""
    finally:
        os.remove(path)


def _one_seeded(d, props_all, tier):
    t0 = time.time()
    with open(os.path.join(d, "meta.json")) as f:
        meta = json.load(f)
    sid = os.path.basename(d)
    res = {"id": sid, "property": meta["property"]}
    if meta.get("outside_statement"):
        res["outside"] = meta["outside_statement"]
    tmp = tempfile.mkdtemp(prefix="cvss-seeded-")
    root = os.path.join(tmp, "repo")
    try:
        make_copy(root)
        demo = os.path.join(d, meta.get("demo", "demo.py"))
        res["demo_on_unchanged"] = _run_demo(root, demo)[0]
        p = subprocess.run(["git", "apply", "--whitespace=nowarn", os.path.join(d, "patch.diff")], cwd=root,
                           stdout=subprocess.PIPE, stderr=subprocess.STDOUT)
        if p.returncode != 0:
            res["verdict"] = "PATCH-DOES-NOT-APPLY"
            res["log"] = p.stdout.decode()[-500:]
            return res
        passed, failed = run_tests(root)
        res["tests_passed"], res["tests_failed"] = passed, failed
        code, out = _run_demo(root, demo)
        res["demo_on_changed"] = code
        props = [meta["property"]] + [q for q in meta.get("also_run", []) if q in props_all]
        res["checks"] = {}
        for prop in props:
            code, out = run_check(prop, root, tier=tier, njobs=int(os.environ.get("SEEDED_JOBS", "8")))
            sigs = [ln for ln in out.splitlines() if ln.startswith("violation:")]
            res["checks"][prop] = {"exit": code, "signatures": [x[:300] for x in sigs[:3]], "tail": (out.splitlines() or [""])[-1][:200]}
            if code == 2:
                res["checks"][prop]["log"] = out[-2500:]
        main = res["checks"][meta["property"]]
        res["verdict"] = "caught" if main["exit"] == 1 and main["signatures"] else ("HARNESS-ERROR" if main["exit"] == 2 else "MISSED")
        return res
    finally:
        shutil.rmtree(tmp, ignore_errors=True)
        res["wall_s"] = round(time.time() - t0, 1)


def seeded(only, tier):
    core.attach_repo()
    from . import checks

    props_all = sorted(checks.CHECKS)
    base = os.path.join(core.VERIF, "seeded")
    dirs = sorted(os.path.join(base, x) for x in os.listdir(base) if os.path.exists(os.path.join(base, x, "meta.json")))
    if only:
        dirs = [d for d in dirs if any(os.path.basename(d).startswith(o) for o in only)]
    results = []
    with concurrent.futures.ThreadPoolExecutor(max_workers=2) as ex:
        for r in ex.map(lambda d: _one_seeded(d, props_all, tier), dirs):
            results.append(r)
            print("%-28s %s tests=%s/%s demo(unchanged)=%s demo(changed)=%s -> %-8s %6.1fs %s" % (
                r["id"], r["property"], r.get("tests_passed"), len(r.get("tests_failed", [])), r.get("demo_on_unchanged"),
                r.get("demo_on_changed"), r.get("verdict"), r["wall_s"],
                (r.get("checks", {}).get(r["property"], {}).get("signatures") or [""])[0][11:170]))
            if r.get("outside"):
                r["verdict_raw"] = r.get("verdict")
                r["verdict"] = "outside-statement(%s)" % ("not detected, as intended" if r.get("verdict") == "MISSED" else r.get("verdict"))
                print("%-28s %s -> %s: %s" % (r["id"], r["property"], r["verdict"], r["outside"][:200]))
            elif r.get("verdict") != "caught":
                print(json.dumps(r, indent=1)[:3000])
            sys.stdout.flush()
    with open(os.path.join(core.VERIF, "selftest", "seeded_result_%s.json" % tier), "w") as f:
        json.dump(results, f, indent=1, sort_keys=True)
    bad = [r for r in results if r.get("verdict") != "caught" and not r.get("outside")]
    n_out = sum(1 for r in results if r.get("outside"))
    print("selftest-seeded (%s tier): %d caught, %d not, %d outside the statement (informational)" % (tier, len(results) - len(bad) - n_out, len(bad), n_out))
    return 1 if bad else 0


# ---------------------------------------------------------------------------------------------
# behaviour-preserving patches written by independent sub-agents (/verif/benign/<id>/patch*.diff):
# negative controls -- every check must stay green on each of them
# ---------------------------------------------------------------------------------------------


def _one_benign(path, props_all):
    t0 = time.time()
    name = os.path.basename(os.path.dirname(path)) + "/" + os.path.basename(path)
    res = {"id": name}
    tmp = tempfile.mkdtemp(prefix="cvss-benign-")
    root = os.path.join(tmp, "repo")
    try:
        make_copy(root)
        p = subprocess.run(["git", "apply", "--whitespace=nowarn", path], cwd=root, stdout=subprocess.PIPE, stderr=subprocess.STDOUT)
        if p.returncode != 0:
            res["verdict"] = "PATCH-DOES-NOT-APPLY"
            res["log"] = p.stdout.decode()[-400:]
            return res
        passed, failed = run_tests(root)
        res["tests_passed"], res["tests_failed"] = passed, failed
        if failed:
            res["verdict"] = "breaks-existing-tests"
            return res
        res["checks"] = {}
        only_props = [q for q in os.environ.get("BENIGN_PROPS", "").split(",") if q]
        for prop in props_all:
            if only_props and prop not in only_props:
                continue
            code, out = run_check(prop, root, njobs=int(os.environ.get("SEEDED_JOBS", "8")))
            sigs = [ln for ln in out.splitlines() if ln.startswith("violation:") or ln.startswith("HARNESS-ERROR")]
            res["checks"][prop] = {"exit": code, "lines": [x[:400] for x in sigs[:4]]}
        res["verdict"] = "stays-green" if all(c["exit"] == 0 for c in res["checks"].values()) else "ALARM"
        return res
    finally:
        shutil.rmtree(tmp, ignore_errors=True)
        res["wall_s"] = round(time.time() - t0, 1)


def benign(only):
    core.attach_repo()
    from . import checks
    import glob

    props_all = sorted(checks.CHECKS)
    paths = sorted(glob.glob(os.path.join(core.VERIF, "benign", "*", "patch*.diff")))
    if only:
        paths = [p for p in paths if any(o in p for o in only)]
    results = []
    with concurrent.futures.ThreadPoolExecutor(max_workers=2) as ex:
        for r in ex.map(lambda p: _one_benign(p, props_all), paths):
            results.append(r)
            print("%-28s tests=%s/%s -> %-12s %6.1fs %s" % (r["id"], r.get("tests_passed"), len(r.get("tests_failed", [])),
                                                        r.get("verdict"), r["wall_s"],
                                                        " ".join("%s=%s" % (k, v["exit"]) for k, v in sorted(r.get("checks", {}).items()))))
            if r.get("verdict") != "stays-green":
                print(json.dumps(r, indent=1)[:3000])
            sys.stdout.flush()
    with open(os.path.join(core.VERIF, "selftest", "benign_result.json"), "w") as f:
        json.dump(results, f, indent=1, sort_keys=True)
    bad = [r for r in results if r.get("verdict") not in ("stays-green", "breaks-existing-tests")]
    print("selftest-benign: %d stay green, %d alarms/problems" % (sum(r.get("verdict") == "stays-green" for r in results), len(bad)))
    return 1 if bad else 0

# -*- coding: utf-8 -*-
"""
C18 -- a constructed object is an immutable value with total, pure accessors (DESIGN 3.4).

The simulated party is a *client* that issues a seeded history of operations on a small pool of
live objects (accessor calls in any order, comparisons, hashing, keeping and JSON-round-tripping
the dicts returned by as_json()) and injects *client faults* on the dicts it holds (delete a key,
overwrite values with junk, clear(), add a key, update() from another object's dict, popitem()).

Reference model = the immutable value: after every op the result must equal (b) the first result
of the same call on the same object, and (c) the result of the same call on a *fresh twin* built
from the same string at that moment in a pristine pool; (a) no accessor may raise; (d) no as_json()
result may be, or share a mutable sub-object with, a dict the client already holds.
Single-threaded by design: the statement quantifies over sequences of accessor calls.
"""
from . import runner23, spec, vectors
from .core import list_deletions, violation
from .rng import Rng, mix

PROP = "C18"

ACCESSOR_CALLS = [
    ("scores", {}),
    ("severities", {}),
    ("clean_vector", {}),
    ("clean_vector", {"output_prefix": False}),
    ("clean_vector", {"output_prefix": True}),
    ("rh_vector", {}),
    ("temporal_vector", {}),
    ("environmental_vector", {}),
    ("as_json", {}),
    ("as_json", {"sort": True}),
    ("as_json", {"minimal": True}),
    ("as_json", {"sort": True, "minimal": True}),
    ("as_json", {"sort": False, "minimal": False}),
]


def calls_for(cls):
    out = []
    for m, args in ACCESSOR_CALLS:
        if cls == "CVSS2" and "output_prefix" in args:
            continue
        if cls == "CVSS4" and m in ("temporal_vector", "environmental_vector"):
            continue
        out.append((m, args))
    return out


def gen_history(rng):
    """-> list of ops (JSON-able)."""
    ops = []
    n_obj = rng.weighted([(1, 4), (2, 4), (3, 2), (4, 1)])
    objs = []  # (name, cls, string)
    for i in range(n_obj):
        if objs and rng.chance(0.45):
            # same string, or an equal one (fields permuted / explicit Not Defined), as an earlier object
            _, cls, s = rng.choice(objs)
            version = spec.version_of_emitted(s)
            if rng.chance(0.5):
                sp = spec.SPECS[version]
                fields = s[len(sp.prefix):].split("/")
                rng.shuffle(fields)
                s = sp.prefix + "/".join(fields)
        else:
            version = rng.choice(list(spec.VERSIONS))
            cls = spec.CLASS_OF[version]
            s = vectors.valid_vector(rng, version, corners=0.25)
        name = "o%d" % i
        objs.append((name, cls, s))
    # constructions are spread over the history: some objects appear late
    late = [o for o in objs[1:] if rng.chance(0.4)]
    for o in objs:
        if o not in late:
            ops.append({"op": "new", "cls": o[1], "s": o[2], "as": o[0]})
    live = [o for o in objs if o not in late]
    held = []  # (name, owner)
    n_ops = rng.choice([3, 6, 12, 25, 40])
    p_fault = rng.choice([0.0, 0.1, 0.25, 0.5])
    for k in range(n_ops):
        if late and rng.chance(0.15):
            o = late.pop(0)
            ops.append({"op": "new", "cls": o[1], "s": o[2], "as": o[0]})
            live.append(o)
            continue
        if held and rng.chance(p_fault):
            h, owner = rng.choice(held)
            how = rng.choice(["clear", "del", "junk", "junk_all", "add", "update", "popitem"])
            op = {"op": "mutate", "held": h, "how": how, "i": rng.below(40)}
            if how in ("junk", "junk_all", "add"):
                op["v"] = rng.choice(["JUNK", 0, None, -1.5, "CRITICAL", "CVSS:3.1/AV:N"])
            if how == "add":
                op["k"] = rng.choice(["injected", "baseScore", "vectorString", "version"])
            if how == "update":
                op["other"] = rng.choice(held)[0]
            ops.append(op)
            continue
        o = rng.choice(live)
        r = rng.below(100)
        if r < 62:
            m, args = rng.choice(calls_for(o[1]))
            op = {"op": "call", "obj": o[0], "m": m, "args": args}
            if m == "as_json" and rng.chance(0.7):
                h = "h%d" % len(held)
                op["hold"] = h
                held.append((h, o[0]))
            ops.append(op)
        elif r < 78:
            other = rng.weighted([("obj", 5), ("none", 1), ("str", 2), ("dict", 1), ("int", 1), ("clean", 1)])
            if other == "obj":
                b = rng.choice(live)[0]
            elif other == "none":
                b = {"lit": "none"}
            elif other == "str":
                b = {"lit": "vector_of", "v": o[0]}
            elif other == "clean":
                b = {"lit": "clean_of", "v": o[0]}
            elif other == "dict":
                b = {"lit": "dict", "v": o[2]}
            else:
                b = {"lit": "int"}
            ops.append({"op": "eq", "a": o[0], "b": b})
        elif r < 86:
            ops.append({"op": "hash_eq", "a": o[0], "b": rng.choice(live)[0]})
        elif r < 90:
            ops.append({"op": "in_set", "a": o[0], "b": rng.choice(live)[0]})
        elif r < 95 and held:
            ops.append({"op": "roundtrip", "held": rng.choice(held)[0]})
        else:
            ops.append({"op": "hash_twice", "a": o[0]})
    return ops


PURE_KINDS = ("call", "eq", "hash_eq", "hash_twice", "in_set")


def judge(ops):
    """Execute the history on a live pool and judge every step. -> (violations, info, results)."""
    it = runner23.Interp()
    strings = {}  # object name -> (cls, string)
    first = {}
    vio = []
    info = {"faults": 0, "accessor_after_fault": 0, "accessors": set(), "bad": False, "ops": 0, "twins": 0}
    results = []
    seen_fault = False
    for k, op in enumerate(ops):
        r = it.run_op(op)
        results.append(r)
        info["ops"] += 1
        if "bad" in r:
            info["bad"] = True
            return [], info, results
        kind = op["op"]
        if kind == "new":
            strings[op["as"]] = (op["cls"], op["s"])
            if "exc" in r:
                info["bad"] = True  # histories are built from accepted vectors only
                return [], info, results
            continue
        if kind == "mutate":
            info["faults"] += 1
            seen_fault = True
            continue
        if r.get("out") or r.get("err"):
            vio.append(violation(PROP, "a", "writes-output:%s" % op.get("m", kind),
                                 "op %d %s wrote to stdout/stderr: %r" % (k, describe(op), (r.get("out") or r.get("err"))[:80])))
        if kind not in PURE_KINDS:
            continue
        if kind == "call":
            info["accessors"].add((op["obj"], op["m"]))
            if seen_fault:
                info["accessor_after_fault"] += 1
        cls = strings.get(op.get("obj") or op.get("a"), ("?", ""))[0]
        what = op.get("m", kind)
        # (a) totality
        if "exc" in r:
            vio.append(violation(PROP, "a", "accessor-raises:%s:%s:%s" % (cls, what, r["exc"][0]),
                                 "op %d %s raised %s: %s" % (k, describe(op), r["exc"][0], r["exc"][1][:120])))
            continue
        val = r["ok"]
        if isinstance(val, dict) and "aliases" in val:
            vio.append(violation(PROP, "d", "as_json-aliases-held-dict:%s" % cls,
                                 "op %d %s returned (or shares a mutable part with) the dict(s) the client holds as %s" %
                                 (k, describe(op), ",".join(val["aliases"]))))
            val = val["value"]
        # (b) equal to the first result of the same call on the same object
        key = runner23.dumps([kind, op.get("obj"), op.get("m"), op.get("args"), op.get("a"), op.get("b")])
        if key in first:
            if first[key][1] != val:
                vio.append(violation(PROP, "b", "result-changed:%s:%s" % (cls, what),
                                     "op %d %s returned %s, the same call at op %d returned %s%s" %
                                     (k, describe(op), short(val), first[key][0], short(first[key][1]),
                                      " (a client fault on a held dict happened in between)" if seen_fault else "")))
        else:
            first[key] = (k, val)
        # (c) equal to the same call on fresh twins in a pristine pool
        twin = runner23.Interp()
        names = [n for n in (op.get("obj"), op.get("a"), op.get("b")) if isinstance(n, str)]
        lit = op.get("b")
        if isinstance(lit, dict) and lit.get("lit") in ("vector_of", "clean_of"):
            names.append(lit["v"])
        ok = True
        for n in set(names):
            if n not in strings:
                ok = False
                break
            tr = twin.run_op({"op": "new", "cls": strings[n][0], "s": strings[n][1], "as": n})
            if "exc" in tr:
                ok = False
        if ok:
            top = dict(op)
            top.pop("hold", None)
            tr = twin.run_op(top)
            info["twins"] += 1
            tv = tr.get("ok")
            if isinstance(tv, dict) and "aliases" in tv:
                tv = tv["value"]
            if "exc" in tr or tv != val:
                vio.append(violation(PROP, "c", "differs-from-fresh-twin:%s:%s" % (cls, what),
                                     "op %d %s returned %s, a fresh object built from the same string returns %s" %
                                     (k, describe(op), short(val), short(tv if "exc" not in tr else tr["exc"][:2]))))
    return vio, info, results


def describe(op):
    if op["op"] == "call":
        args = ",".join("%s=%s" % kv for kv in sorted((op.get("args") or {}).items()))
        return "%s.%s(%s)" % (op["obj"], op["m"], args)
    if op["op"] in ("eq", "hash_eq", "in_set"):
        return "%s(%s,%s)" % (op["op"], op["a"], op["b"] if isinstance(op["b"], str) else op["b"].get("lit"))
    return op["op"]


def short(v):
    s = runner23.dumps(v)
    return s if len(s) <= 140 else s[:137] + "..."


def sweep_vectors():
    """Representative accepted vectors per class for the enumerated sweeps (from the spec tables)."""
    out = []
    for version in spec.VERSIONS:
        sp = spec.SPECS[version]
        major = vectors.MAJOR[version]
        for name, body in vectors.CORNERS[major]:
            out.append((sp.cls, sp.prefix + body))
        base = "/".join("%s:%s" % (m, sp.values[m][0]) for m in sp.mandatory)
        out.append((sp.cls, sp.prefix + base))
        groups = sorted(sp.groups.items())
        for gname, metrics in groups:
            m = metrics[0]
            defined = [v for v in sp.values[m] if v != sp.nd][-1]
            out.append((sp.cls, sp.prefix + base + "/%s:%s" % (m, defined)))
            out.append((sp.cls, sp.prefix + base + "/%s:%s" % (m, sp.nd)))
    seen = set()
    uniq = []
    for x in out:
        if x not in seen:
            seen.add(x)
            uniq.append(x)
    return uniq


def sweep_variants(cls):
    """The 'operations on one value' alphabet of the pair sweep: every accessor-call variant on the
    object o0, a few on its twin o1 (built from the same fields in another order), and the
    comparison / hashing operations between the two."""
    ops = [{"op": "call", "obj": "o0", "m": m, "args": a} for m, a in calls_for(cls)]
    for m, a in calls_for(cls):
        if (m, tuple(sorted(a.items()))) in ((("clean_vector"), ()), ("scores", ()), ("as_json", (("minimal", True),)),
                                             ("severities", ())):
            ops.append({"op": "call", "obj": "o1", "m": m, "args": a})
    ops += [{"op": "eq", "a": "o0", "b": "o1"}, {"op": "eq", "a": "o1", "b": "o0"}, {"op": "hash_eq", "a": "o0", "b": "o1"},
            {"op": "in_set", "a": "o0", "b": "o1"}, {"op": "eq", "a": "o0", "b": {"lit": "vector_of", "v": "o0"}},
            {"op": "hash_twice", "a": "o0"}]
    return ops


def sweep_histories():
    """Enumerated sub-sweeps (both tiers):
       pairs  -- for every representative vector, every ordered pair (A, B) of operations of
                 sweep_variants(): A, B, A, B
       faults -- for every representative vector, every as_json variant held, every client fault on it,
                 then every accessor call."""
    cases = []
    for cls, s in sweep_vectors():
        nv = len(sweep_variants(cls))
        for a in range(nv):
            for b in range(nv):
                cases.append(("pair", cls, s, a, b, None))
        calls = calls_for(cls)
        json_calls = [i for i, (m, _) in enumerate(calls) if m == "as_json"]
        for a in json_calls:
            for how in ("clear", "del", "junk", "junk_all", "add", "update", "popitem"):
                for b in range(len(calls)):
                    cases.append(("fault", cls, s, a, b, how))
    return cases


def sweep_ops(case):
    kind, cls, s, a, b, how = case
    calls = calls_for(cls)
    version = spec.version_of_emitted(s)
    prefix = spec.PREFIX[version]
    twin = prefix + "/".join(reversed(s[len(prefix):].split("/")))
    ops = [{"op": "new", "cls": cls, "s": s, "as": "o0"}, {"op": "new", "cls": cls, "s": twin, "as": "o1"}]

    def call(i, hold=None):
        op = {"op": "call", "obj": "o0", "m": calls[i][0], "args": calls[i][1]}
        if hold:
            op["hold"] = hold
        return op

    if kind == "pair":
        var = sweep_variants(cls)
        ops += [var[a], var[b], var[a], var[b]]
    else:
        ops += [call(a, "h0"), {"op": "call", "obj": "o0", "m": "as_json", "args": {}, "hold": "h1"}]
        m = {"op": "mutate", "held": "h0", "how": how, "i": 3}
        if how in ("junk", "junk_all", "add"):
            m["v"] = "JUNK"
        if how == "add":
            m["k"] = "baseScore"
        if how == "update":
            m["other"] = "h1"
            ops.append({"op": "mutate", "held": "h1", "how": "junk_all", "v": 0})
        ops += [m, call(b), call(a)]
    return ops


class HistEngine(object):
    prop = PROP
    isolate_runs = True  # every run in a forked child of the worker (no state leaks from run to run)

    def __init__(self, seed=0, mode="random"):
        self.seed = seed
        self.mode = mode
        self.cases = sweep_histories() if mode == "sweep" else None

    def run_one(self, index):
        if self.mode == "sweep":
            case = self.cases[index]
            trace = {"engine": "hist", "sweep_case": [case[0], case[1], case[3], case[4], case[5]],
                     "item": {"k": "api", "ops": sweep_ops(case)}}
            out = self.assess(trace)
            out["counters"]["sweep.histories." + case[0]] = 1
            return out
        run_seed = mix(self.seed, PROP, index)
        rng = Rng(run_seed)
        ops = gen_history(rng.fork("workload"))
        trace = {"engine": "hist", "run_seed": run_seed, "run_index": index, "item": {"k": "api", "ops": ops}}
        return self.assess(trace)

    def execute(self, trace, shrinking=False):
        return self.assess(trace)

    def assess(self, trace):
        ops = trace["item"]["ops"]
        vio, info, results = judge(ops)
        dg = runner23.digest([ops, results])
        objs = set(o for o, _ in info["accessors"])
        two_accessors = any(len([1 for o2, m in info["accessors"] if o2 == o]) >= 2 for o in objs)
        nontrivial = (info["accessor_after_fault"] > 0) or two_accessors
        classes = sorted(set((op["cls"], len(op["s"].split("/")) > 12) for op in ops if op["op"] == "new"))
        key = [[(op["op"], op.get("m"), op.get("how"), runner23.dumps(op.get("args"))) for op in ops], classes]
        counters = {"histories": 1, "ops": info["ops"], "client_faults": info["faults"],
                    "accessor_calls_after_a_client_fault": info["accessor_after_fault"],
                    "fresh_twin_comparisons": info["twins"], "bad_traces": 1 if info["bad"] else 0}
        for op in ops:
            if op["op"] == "mutate":
                counters["fault." + op["how"]] = counters.get("fault." + op["how"], 0) + 1
        return {"trace": trace, "digest": dg, "violations": vio, "counters": counters,
                "nontrivial": key if nontrivial else False, "steps": info["ops"],
                "sample": {"ops": ops[:30]}, "result": results}

    def trace_size(self, trace):
        ops = trace["item"]["ops"]
        return 10 * len(ops) + sum(len(op.get("s", "")) for op in ops)

    def shrink_candidates(self, trace):
        ops = trace["item"]["ops"]

        def with_ops(o):
            t = dict(trace)
            t["item"] = {"k": "api", "ops": o}
            return t

        for cand in list_deletions(ops):
            yield with_ops(cand)
        # simplify vectors: drop optional fields
        for i, op in enumerate(ops):
            if op["op"] == "new":
                version = spec.version_of_emitted(op["s"])
                prefix = spec.PREFIX[version]
                fields = op["s"][len(prefix):].split("/")
                for cand in list_deletions(fields):
                    if cand:
                        o = dict(op)
                        o["s"] = prefix + "/".join(cand)
                        yield with_ops(ops[:i] + [o] + ops[i + 1:])


def make_engine(seed=0, mode="random"):
    return HistEngine(seed, mode)

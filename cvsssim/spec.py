# -*- coding: utf-8 -*-
"""
Pinned specification tables and the four official vectorString patterns (oracle data, /verif/spec).
Nothing here is imported from the tree under test, except `label_map()`, which resolves the
*display names* the builder prints (presentation, not part of any property) to metric
abbreviations through the tree's own table.
"""
import json
import os
import re

HERE = os.path.dirname(os.path.abspath(__file__))
SPEC_DIR = os.path.join(os.path.dirname(HERE), "spec")

with open(os.path.join(SPEC_DIR, "cvss_spec.json")) as _f:
    _RAW = json.load(_f)
with open(os.path.join(SPEC_DIR, "vectorstring_patterns.json")) as _f:
    PATTERNS = json.load(_f)

VERSIONS = ("2", "3.0", "3.1", "4.0")
_MAJOR = {"2": "2", "3.0": "3", "3.1": "3", "4.0": "4"}
PREFIX = {"2": "", "3.0": "CVSS:3.0/", "3.1": "CVSS:3.1/", "4.0": "CVSS:4.0/"}
CLASS_OF = {"2": "CVSS2", "3.0": "CVSS3", "3.1": "CVSS3", "4.0": "CVSS4"}
PATTERN_KEY = {"2": "2.0", "3.0": "3.0", "3.1": "3.1", "4.0": "4.0"}
_COMPILED = dict((k, re.compile(v)) for k, v in PATTERNS.items())


class Spec(object):
    def __init__(self, version):
        raw = _RAW[_MAJOR[version]]
        self.version = version
        self.prefix = PREFIX[version]
        self.cls = CLASS_OF[version]
        self.nd = raw["not_defined"]
        self.mandatory = list(raw["mandatory"])
        self.order = list(raw["order"])
        self.optional = [m for m in self.order if m not in self.mandatory]
        self.groups = raw["groups"]
        self.values = raw["values"]
        self.pattern = _COMPILED[PATTERN_KEY[version]]

    def metrics(self, all_metrics):
        return list(self.order) if all_metrics else list(self.mandatory)


SPECS = dict((v, Spec(v)) for v in VERSIONS)


def version_of_emitted(s):
    """Version implied by the prefix of an emitted vector string."""
    for v in ("3.0", "3.1", "4.0"):
        if s.startswith(PREFIX[v]):
            return v
    return "2"


def matches_official(version, s):
    # JSON-schema "pattern" is an unanchored search (ECMA 262); the official patterns carry
    # their own ^...$ anchors. `$` in Python also matches before a trailing newline: exclude.
    if s.endswith("\n"):
        return False
    return SPECS[version].pattern.search(s) is not None


def label_map(version):
    """display name -> abbreviation, from the tree under test (presentation only)."""
    import importlib

    mod = importlib.import_module("cvss.constants" + _MAJOR[version])
    out = {}
    dup = set()
    for abbr, name in mod.METRICS_ABBREVIATIONS.items():
        if name in out:
            dup.add(name)
        out[name] = abbr
    for name in dup:
        del out[name]
    # a prompt may also name the metric by its abbreviation ("PR: N/L/H"): accepted as an exact label
    # only (never searched for inside running text: "A", "C", "S" occur everywhere)
    for abbr in mod.METRICS_ABBREVIATIONS:
        out.setdefault(abbr, abbr)
    return out


# ---------------------------------------------------------------------------------------------
# classification of an answer given at the prompt for `metric` (C16 clause b), from the text alone
# ---------------------------------------------------------------------------------------------

_ASCII_WS = " \t\r\n\x0b\x0c"


def _is_ascii(s):
    try:
        s.encode("ascii")
        return True
    except UnicodeError:
        return False


def _alower(s):
    """ASCII-only lower-casing."""
    return "".join(chr(ord(c) + 32) if "A" <= c <= "Z" else c for c in s)


def classify(version, metric, text):
    """-> ("accept", value) | ("refuse", None) | ("either", value)

    accept: the statement demands acceptance as `value` (a legal value in any ASCII letter case,
            or the empty answer where Not Defined is legal);
    refuse: the statement demands that the question is repeated;
    either: the statement is silent (blank padding, exotic case mappings) -- if the program
            accepts, it must be as `value`.
    """
    sp = SPECS[version]
    legal = sp.values[metric]
    if text == "":
        return ("accept", sp.nd) if sp.nd in legal else ("refuse", None)
    if _is_ascii(text):
        for v in legal:
            if _alower(text) == _alower(v):
                return ("accept", v)
    stripped = text.strip()  # unicode-aware: everything any str.strip() could remove
    stripped_ascii = text.strip(_ASCII_WS)
    # invisible padding a lenient reader might also drop: separators, control and format characters
    # (NBSP, zero-width space, byte-order mark, ...) at either end
    import unicodedata

    a, b = 0, len(text)
    while a < b and unicodedata.category(text[a]) in ("Zs", "Zl", "Zp", "Cc", "Cf"):
        a += 1
    while b > a and unicodedata.category(text[b - 1]) in ("Zs", "Zl", "Zp", "Cc", "Cf"):
        b -= 1
    stripped_invisible = text[a:b]
    for cand in (stripped, stripped_ascii, stripped_invisible):
        if cand != text:
            if cand == "":
                return ("either", sp.nd) if sp.nd in legal else ("refuse", None)
            r = classify(version, metric, cand)
            if r[0] in ("accept", "either"):
                return ("either", r[1])
    if not _is_ascii(text):
        forms = set([text.upper(), text.lower(), text.casefold()])
        for f in forms:
            for v in legal:
                if _alower(f) == _alower(v):
                    return ("either", v)
    return ("refuse", None)

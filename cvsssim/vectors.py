# -*- coding: utf-8 -*-
"""
Seeded generators of vector strings, near-vectors, Red Hat notation strings and texts, built from the
pinned specification tables (never from the tree under test).  Used as *workload* by the CLI,
history, scheduler and cross-interpreter engines; what the library should answer for them is
always asked from the same tree (DESIGN 6.7), so nothing here is an oracle.
"""
from . import spec

CORNERS = {
    "2": [
        ("zero_impact", "AV:N/AC:L/Au:N/C:N/I:N/A:N"),
        ("ten", "AV:N/AC:L/Au:N/C:C/I:C/A:C"),
        ("td_none", "AV:N/AC:L/Au:N/C:C/I:C/A:C/TD:N"),
        ("td_none_full", "AV:L/AC:M/Au:S/C:P/I:P/A:C/E:F/RL:W/RC:UR/CDP:MH/TD:N/CR:H/IR:L/AR:M"),
        ("temporal_zero_base", "AV:L/AC:H/Au:M/C:N/I:N/A:N/E:U/RL:OF/RC:UC"),
        ("env_zero", "AV:L/AC:H/Au:M/C:N/I:N/A:N/CDP:N/TD:L"),
        ("explicit_nd", "AV:A/AC:M/Au:S/C:P/I:N/A:P/E:ND/RL:ND/RC:ND/CDP:ND/TD:ND/CR:ND/IR:ND/AR:ND"),
        ("lowest", "AV:L/AC:H/Au:M/C:N/I:N/A:P"),
    ],
    "3": [
        ("zero_impact", "AV:N/AC:L/PR:N/UI:N/S:U/C:N/I:N/A:N"),
        ("zero_impact_changed", "AV:N/AC:L/PR:N/UI:N/S:C/C:N/I:N/A:N"),
        ("ten", "AV:N/AC:L/PR:N/UI:N/S:C/C:H/I:H/A:H"),
        ("env_zero", "AV:N/AC:L/PR:N/UI:N/S:C/C:H/I:H/A:H/MC:N/MI:N/MA:N"),
        ("env_only", "AV:P/AC:H/PR:H/UI:R/S:U/C:L/I:N/A:N/MAV:N/MAC:L/MPR:N/MUI:N/MS:C/MC:H/MI:H/MA:H/CR:H/IR:H/AR:H"),
        ("temporal_only", "AV:L/AC:H/PR:L/UI:R/S:U/C:L/I:L/A:N/E:U/RL:O/RC:U"),
        ("explicit_x", "AV:A/AC:H/PR:L/UI:N/S:C/C:L/I:H/A:N/E:X/RL:X/RC:X/CR:X/IR:X/AR:X/MAV:X/MAC:X/MPR:X/MUI:X/MS:X/MC:X/MI:X/MA:X"),
        ("ms_flip", "AV:N/AC:L/PR:L/UI:N/S:U/C:H/I:H/A:H/MS:C/MPR:H/CR:H"),
    ],
    "4": [
        ("zero_impact", "AV:N/AC:L/AT:N/PR:N/UI:N/VC:N/VI:N/VA:N/SC:N/SI:N/SA:N"),
        ("ten", "AV:N/AC:L/AT:N/PR:N/UI:N/VC:H/VI:H/VA:H/SC:H/SI:H/SA:H"),
        ("lowest", "AV:P/AC:H/AT:P/PR:H/UI:A/VC:N/VI:N/VA:L/SC:N/SI:N/SA:N/E:U/CR:L/IR:L/AR:L"),
        ("safety", "AV:L/AC:L/AT:N/PR:L/UI:N/VC:L/VI:L/VA:L/SC:N/SI:N/SA:N/MSI:S/MSA:S"),
        ("supplemental", "AV:N/AC:L/AT:N/PR:N/UI:N/VC:H/VI:L/VA:N/SC:N/SI:N/SA:N/S:P/AU:Y/R:I/V:C/RE:H/U:Red"),
        ("modified_zero", "AV:N/AC:L/AT:N/PR:N/UI:N/VC:H/VI:H/VA:H/SC:H/SI:H/SA:H/MVC:N/MVI:N/MVA:N/MSC:N/MSI:N/MSA:N"),
        ("all_groups", "AV:A/AC:H/AT:P/PR:L/UI:P/VC:L/VI:H/VA:N/SC:L/SI:N/SA:H/E:P/CR:M/IR:H/AR:L/MAV:N/MAC:L/MAT:N/MPR:N/MUI:N/MVC:H/MVI:L/MVA:H/MSC:N/MSI:S/MSA:L/S:N/AU:N/R:A/V:D/RE:L/U:Amber"),
    ],
}

MAJOR = {"2": "2", "3.0": "3", "3.1": "3", "4.0": "4"}

FILLER = ["", " ", "\n", "see ", " and ", "; ", ", ", " (", ") ", ". ", "CVE-2024-1234 ", "score 7.5 ", "\t",
          "vector=", "\"", "'", " - ", "[", "] ", "-> ", "Ünïcode ", "#1 ", "100% ", "\r\n"]
GLUE = ["", "/", ":", "x", "AV", "/AV:N", "CVSS:", "A", "z:"]
# characters directly before / after a vector on which regular-expression classes, str.strip(),
# str.isdigit() and friends disagree between interpreters or between ASCII and Unicode modes
EDGE = [".", ",", ";", ")", "]", "'", "\"", "-", "_", "1", "/1", "7.5/", "\t", "\r\n", "\x0b", "\x0c", "\x1c", "\x85",
        "\u00a0", "\u2028", "\u2003", "\uff11", "\u0663", "\u00b2", "\u00e9", "\u0130", "\u212a", "\ufeff", "\x00"]


def assignment(rng, version, p_optional=None, p_nd=None):
    """metric -> value for a random valid vector; optional metrics absent / Not Defined / defined."""
    sp = spec.SPECS[version]
    if p_optional is None:
        p_optional = rng.choice([0.0, 0.15, 0.5, 0.9, 1.0])
    if p_nd is None:
        p_nd = rng.choice([0.0, 0.2, 0.5])
    a = []
    for m in sp.mandatory:
        a.append((m, rng.choice(sp.values[m])))
    for m in sp.optional:
        if rng.chance(p_optional):
            if rng.chance(p_nd):
                a.append((m, sp.nd))
            else:
                a.append((m, rng.choice([v for v in sp.values[m] if v != sp.nd])))
    return a


def render(version, pairs, order="spec", rng=None):
    pairs = list(pairs)
    if order == "shuffled" and rng is not None:
        rng.shuffle(pairs)
    elif order == "reversed":
        pairs.reverse()
    return spec.PREFIX[version] + "/".join("%s:%s" % (m, v) for m, v in pairs)


def valid_vector(rng, version, corners=0.15):
    """A vector that is valid for `version` per the specification tables."""
    if rng.chance(corners):
        name, body = rng.choice(CORNERS[MAJOR[version]])
        fields = body.split("/")
        if rng.chance(0.4):
            rng.shuffle(fields)
        return spec.PREFIX[version] + "/".join(fields)
    order = rng.weighted([("spec", 3), ("shuffled", 4), ("reversed", 1)])
    return render(version, assignment(rng, version), order, rng)


def edit_vector(rng, s):
    """One edit away from `s`: (kind, string)."""
    kinds = ["del_char", "repl_char", "ins_char", "dup_field", "drop_field", "lower_value", "trailing_slash",
             "empty_field", "drop_prefix", "wrong_minor", "swap_colon", "lower_all", "pad", "double_colon",
             "dup_field_other_value", "unknown_metric", "leading_slash"]
    kind = rng.choice(kinds)
    fields = s.split("/")
    if kind == "del_char" and len(s) > 1:
        i = rng.below(len(s))
        return kind, s[:i] + s[i + 1:]
    if kind == "repl_char" and s:
        i = rng.below(len(s))
        return kind, s[:i] + rng.choice("ABCDEFHLMNPRSUXZ:/.0 ") + s[i + 1:]
    if kind == "ins_char":
        i = rng.below(len(s) + 1)
        return kind, s[:i] + rng.choice("ANX:/ .1") + s[i:]
    if kind == "dup_field":
        f = rng.choice(fields)
        return kind, s + "/" + f
    if kind == "dup_field_other_value":
        f = rng.choice(fields)
        if ":" in f and not f.startswith("CVSS"):
            return kind, s + "/" + f.split(":")[0] + ":" + rng.choice("NLHPC")
        return "dup_field", s + "/" + f
    if kind == "drop_field" and len(fields) > 1:
        i = rng.below(len(fields))
        return kind, "/".join(fields[:i] + fields[i + 1:])
    if kind == "lower_value":
        i = rng.below(len(fields))
        if ":" in fields[i] and not fields[i].startswith("CVSS"):
            m, v = fields[i].split(":", 1)
            fields[i] = m + ":" + v.lower()
            return kind, "/".join(fields)
    if kind == "trailing_slash":
        return kind, s + "/"
    if kind == "leading_slash":
        return kind, "/" + s
    if kind == "empty_field" and len(fields) > 1:
        i = 1 + rng.below(len(fields) - 1)
        return kind, "/".join(fields[:i] + [""] + fields[i:])
    if kind == "drop_prefix" and s.startswith("CVSS:"):
        return kind, s.split("/", 1)[1]
    if kind == "wrong_minor" and s.startswith("CVSS:"):
        if rng.chance(0.3):
            # a decimal digit from outside ASCII in the version (what `\\d`, int() and str.isdigit() take for
            # a digit depends on the interpreter's Unicode data base: Kawi is known to 3.12+, the segmented
            # digits to 3.9+, Wancho to 3.8+, Hanifi Rohingya to 3.7+, fullwidth / Arabic-Indic to every 3.x)
            d = rng.choice([u"\uff11", u"\uff10", u"\u0660", u"\u0661", u"\U00010d31", u"\U0001e2f1", u"\U0001fbf1", u"\U00011f51", u"\U00011f50"])
            major = s[5:6] if len(s) > 6 else "3"
            return kind, rng.choice(["CVSS:%s.%s/" % (major, d), "CVSS:%s.0/" % (u"\uff13" if major == "3" else u"\uff14")]) + s.split("/", 1)[1]
        return kind, rng.choice(["CVSS:3.2/", "CVSS:4.1/", "CVSS:3/", "CVSS:2.0/", "cvss:3.1/", "CVSS:3.1", "CVSS:3.10/"]) + s.split("/", 1)[1]
    if kind == "swap_colon":
        i = rng.below(len(fields))
        return kind, "/".join(fields[:i] + [fields[i].replace(":", "=")] + fields[i + 1:])
    if kind == "lower_all":
        return kind, s.lower()
    if kind == "pad":
        return kind, rng.choice([" ", "\t", "\n"]) + s if rng.chance(0.5) else s + rng.choice([" ", "\n", "\t"])
    if kind == "double_colon":
        i = rng.below(len(fields))
        return kind, "/".join(fields[:i] + [fields[i].replace(":", "::")] + fields[i + 1:])
    if kind == "unknown_metric":
        return kind, s + "/" + rng.choice(["XX:N", "AVV:N", "Q:H", "av:N", "MZ:X"])
    return "trailing_slash", s + "/"


def garbage(rng):
    kind = rng.choice(["empty", "blank", "word", "slashes", "colons", "nonascii", "number", "long", "quote", "format"])
    if kind == "empty":
        return kind, ""
    if kind == "blank":
        return kind, rng.choice([" ", "  ", "\t"])
    if kind == "word":
        return kind, rng.choice(["hello", "None", "CVSS", "vector", "AV", "N", "x" * 30])
    if kind == "slashes":
        return kind, "/" * rng.between(1, 4)
    if kind == "colons":
        return kind, rng.choice([":", "::", "a:b:c", ":/:", "AV:", ":N"])
    if kind == "nonascii":
        return kind, rng.choice(["CVSS:3.1/AV:é", "ÀV:N/AC:L", "вектор", "高/低", "AV:N/AC:L/Au:N/C:Ç/I:N/A:N"])
    if kind == "number":
        return kind, rng.choice(["7.5", "0", "3.1", "1e3"])
    if kind == "long":
        return kind, "AV:N/" * rng.choice([50, 500])
    if kind == "quote":
        return kind, rng.choice(["\"AV:N\"", "'", "{0}", "%s", "{", "}", "\\"])
    return kind, rng.choice(["{0}", "{vector}", "%(x)s", "%d"])


def any_vector(rng, version, p_valid=0.6):
    """(class, string): workload for 'a vector argument meant for `version`'."""
    r = rng.below(100)
    if r < int(p_valid * 100):
        return "valid", valid_vector(rng, version)
    r = rng.below(100)
    if r < 45:
        kind, s = edit_vector(rng, valid_vector(rng, version))
        return "edit." + kind, s
    if r < 70:
        other = rng.choice([v for v in spec.VERSIONS if spec.CLASS_OF[v] != spec.CLASS_OF[version]])
        return "other_version", valid_vector(rng, other)
    kind, s = garbage(rng)
    return "garbage." + kind, s


def rh_string(rng, version, good_score=None):
    """(class, string) in Red Hat notation; the right score must be supplied by the caller."""
    v = valid_vector(rng, version)
    kind = rng.weighted([("right", 5), ("wrong", 2), ("nonnumeric", 1), ("noslash", 1), ("invalid_vector", 1),
                         ("int_score", 1), ("padded", 1)])
    return kind, v


def siblings(rng, version):
    """A family of strings that a too-coarse cache key / shared default / leaked table entry would
    confuse (DESIGN 3.5): -> list of (cls, how, string)."""
    sp = spec.SPECS[version]
    cls = sp.cls
    pairs = assignment(rng, version, p_optional=rng.choice([0.3, 0.7, 1.0]), p_nd=0.2)
    base = render(version, pairs)
    fam = [(cls, "ctor", base)]
    # other field order
    fam.append((cls, "ctor", render(version, pairs, "shuffled", rng)))
    # other minor version, same body
    if version in ("3.0", "3.1"):
        other = "3.1" if version == "3.0" else "3.0"
        fam.append((cls, "ctor", render(other, pairs)))
    # with explicit Not Defined for every absent optional metric
    have = set(m for m, _ in pairs)
    fam.append((cls, "ctor", render(version, pairs + [(m, sp.nd) for m in sp.optional if m not in have])))
    # without the Not Defined ones
    fam.append((cls, "ctor", render(version, [(m, v) for m, v in pairs if v != sp.nd])))
    # one optional / modified metric changed
    opt = [i for i, (m, v) in enumerate(pairs) if m in sp.optional]
    if opt:
        i = rng.choice(opt)
        m, v = pairs[i]
        alt = list(pairs)
        alt[i] = (m, rng.choice([x for x in sp.values[m] if x != v]))
        fam.append((cls, "ctor", render(version, alt)))
    # one mandatory metric changed
    i = rng.below(len(sp.mandatory))
    m, v = pairs[i]
    alt = list(pairs)
    alt[i] = (m, rng.choice([x for x in sp.values[m] if x != v]))
    fam.append((cls, "ctor", render(version, alt)))
    # letter case / blanks: invalid twins
    fam.append((cls, "ctor", base.lower()))
    fam.append((cls, "ctor", base + " "))
    fam.append((cls, "ctor", " " + base))
    # same tail under another class
    body = base[len(sp.prefix):]
    for other_cls in ("CVSS2", "CVSS3", "CVSS4"):
        if other_cls != cls:
            fam.append((other_cls, "ctor", base))
            fam.append((other_cls, "ctor", {"CVSS2": "", "CVSS3": "CVSS:3.1/", "CVSS4": "CVSS:4.0/"}[other_cls] + body))
            break
    return fam


def text_with_vectors(rng, pool=None):
    """Arbitrary filler interleaved with valid v2/v3/v4 vectors, near-vectors, repeats, glued ones."""
    n = rng.between(0, 5)
    parts = []
    used = []
    for _ in range(n):
        parts.append(rng.choice(FILLER))
        r = rng.below(10)
        if used and r < 2:
            v = rng.choice(used)
        elif pool and r < 4:
            v = rng.choice(pool)
        else:
            version = rng.choice(["2", "3.0", "3.1", "3.1", "4.0"])
            v = valid_vector(rng, version, corners=0.1)
            if rng.chance(0.2):
                v = edit_vector(rng, v)[1]
            if version in ("3.0", "3.1") and rng.chance(0.2):
                # same metrics in another order / with explicit X: equal objects, different strings
                used.append(v)
        used.append(v)
        if rng.chance(0.15):
            parts.append(rng.choice(GLUE))
        elif rng.chance(0.12):
            parts.append(rng.choice(EDGE))
        if rng.chance(0.06) and v.startswith("CVSS:3."):
            # a non-ASCII digit in the minor version: matched by an unrestricted \d, not a valid prefix
            v = v[:7] + rng.choice(["\uff10", "\uff11", "\u0661", "\u00b9"]) + v[8:]
        if rng.chance(0.07) and v.count("/") > 3:
            # a vector wrapped after a separator, continuation line indented (e-mails, PDF exports)
            cut = [i for i, c in enumerate(v) if c == "/"]
            i = rng.choice(cut[1:]) + 1
            v = v[:i] + rng.choice(["\n", "\r\n", " \n  ", "\n\t", "\n> "]) + v[i:]
        parts.append(v)
        if rng.chance(0.15):
            parts.append(rng.choice(GLUE))
        elif rng.chance(0.12):
            parts.append(rng.choice(EDGE))
    parts.append(rng.choice(FILLER))
    return "".join(parts)

# -*- coding: utf-8 -*-
"""
C16 -- the interactive builder under the simulated terminal (DESIGN 3.2).

System under simulation: the real cvss.interactive.ask_interactively.  Simulated: stdin (a seeded,
reactive user agent that answers prompt by prompt and injects end-of-input faults), stdout/stderr
(recorded).  The oracle (`judge`) works on the recorded session alone, so it gives the same verdict
for a live run, a replay and a shrunk candidate.
"""
from . import runner23, spec
from .core import HarnessError, list_deletions, violation
from .rng import Rng, mix

PROP = "C16"
MAX_READS = 500

# ---------------------------------------------------------------------------------------------
# answer material
# ---------------------------------------------------------------------------------------------

GARBAGE_ALPHABET = "abcdefghijklmnopqrstuvwxyzABCDEFGHIJKLMNOPQRSTUVWXYZ0123456789-_.,;!?*+=()[]{}<>|\\'\"@#$%^&~`"
NONASCII = ["é", "Ño", "нет", "高", "üß", "Ω", "\U0001F600", "àè", "Δx"]
# no "\r": a text-mode stdin (universal newlines) can never deliver it inside a line
PADS = [" ", "  ", "\t", " \t ", "\x0b", "\x0c", "\u00a0", "\u2003", "\x1c", "\x85"]
EXOTIC = {"I": "ı", "i": "ı", "S": "ſ", "s": "ſ", "K": "K", "k": "K"}


def spell(rng, value, how):
    if how == "canonical":
        return value
    if how == "lower":
        return value.lower()
    if how == "upper":
        return value.upper()
    # mixed: random case per character, guaranteed to differ from canonical where possible
    for _ in range(4):
        s = "".join(c.upper() if rng.chance(0.5) else c.lower() for c in value)
        if s != value:
            return s
    return value.swapcase()


_VALUE_NAMES = {}


def value_names(version, metric):
    """English names of the metric's values as the tree displays them (e.g. 'Network'), those that
    are not themselves legal answers."""
    key = (version, metric)
    if key not in _VALUE_NAMES:
        import importlib

        try:
            mod = importlib.import_module("cvss.constants" + spec._MAJOR[version])
            names = [str(n) for n in mod.METRICS_VALUE_NAMES[metric].values()]
        except Exception:
            names = []
        _VALUE_NAMES[key] = [n for n in names if len(n) > 1 and spec.classify(version, metric, n)[0] == "refuse"]
    return _VALUE_NAMES[key]


def illegal_answer(rng, version, metric):
    """A 'definitely illegal' answer (classify() == refuse), of a drawn kind."""
    sp = spec.SPECS[version]
    legal = sp.values[metric]
    kinds = ["other_metric_value", "prefix", "plus_char", "two_values", "metric_colon", "wrong_nd",
             "garbage", "long", "nonascii", "digit", "padded_garbage", "inner_space", "suffix",
             "wrapped", "value_name", "first_token", "homoglyph", "position"]
    for _ in range(12):
        kind = rng.choice(kinds)
        if kind == "wrapped":
            # a legal value in the punctuation the hints show it in, or with a sentence mark
            v = spell(rng, rng.choice(legal), rng.choice(["canonical", "lower"]))
            a, b = rng.choice([("(", ")"), ("[", "]"), ("'", "'"), ("\"", "\""), ("<", ">"), ("", "."), ("", ","), ("", ";"),
                               ("", "!"), ("", "?"), ("-", ""), ("=", ""), ("*", "*")])
            cand = a + v + b
        elif kind == "value_name":
            # the value's full English name or a prefix of it (taken from the tree's display table:
            # presentation data, used here only as something a user might type)
            names = value_names(version, metric)
            if not names:
                continue
            name = rng.choice(names)
            cut = rng.choice([len(name), 3, 4, 2])
            cand = spell(rng, name[:max(2, cut)], rng.choice(["canonical", "lower", "upper"]))
        elif kind == "first_token":
            v = spell(rng, rng.choice(legal), rng.choice(["canonical", "lower"]))
            cand = v + rng.choice([" foo", " " + rng.choice(legal), "\tx", " !", "\x00", "\x00N", " #1"])
        elif kind == "homoglyph":
            # letters that merely look like ASCII letters (Cyrillic, Greek, fullwidth, mathematical)
            table = {"A": "\u0410\u0391\uff21", "C": "\u0421\uff23", "H": "\u041d\u0397\uff28", "L": "\uff2c\u216c", "M": "\u041c\u039c\uff2d",
                     "N": "\u039d\uff2e", "P": "\u0420\u03a1\uff30", "X": "\u0425\u03a7\uff38", "S": "\u0405\uff33", "U": "\uff35", "R": "\uff32",
                     "T": "\u0422\u03a4\uff34", "O": "\u041e\u039f\uff2f", "F": "\uff26", "D": "\uff24", "Y": "\u03a5\uff39", "I": "\u0406\u0399\uff29",
                     "W": "\uff37", "G": "\uff27", "E": "\u0415\u0395\uff25", "B": "\u0412\u0392"}
            v = rng.choice(legal).upper()
            idx = [i for i, c in enumerate(v) if c in table]
            if not idx:
                continue
            i = rng.choice(idx)
            cand = v[:i] + rng.choice(table[v[i]]) + v[i + 1:]
            if rng.chance(0.3):
                cand = cand.lower()
        elif kind == "position":
            cand = rng.choice(["1", "2", "3", "0", "#1", "1.", "a)", "i"])
        elif kind == "other_metric_value":
            other = rng.choice(sp.order)
            cand = rng.choice(sp.values[other])
        elif kind == "prefix":
            multi = [v for v in legal if len(v) > 1]
            if not multi:
                continue
            v = rng.choice(multi)
            cand = v[: rng.between(1, len(v) - 1)]
        elif kind == "suffix":
            multi = [v for v in legal if len(v) > 1]
            if not multi:
                continue
            v = rng.choice(multi)
            cand = v[rng.between(1, len(v) - 1):]
        elif kind == "plus_char":
            v = rng.choice(legal)
            cand = v + rng.choice([v[-1], "S", "X", "D", "1", ".", ":"])
        elif kind == "two_values":
            cand = rng.choice(legal) + rng.choice(["/", ",", " ", "|"]) + rng.choice(legal)
        elif kind == "metric_colon":
            cand = metric + ":" + rng.choice(legal)
        elif kind == "wrong_nd":
            cand = "X" if version == "2" else "ND"
        elif kind == "garbage":
            cand = "".join(rng.choice(GARBAGE_ALPHABET) for _ in range(rng.between(1, 8)))
        elif kind == "long":
            cand = rng.choice(legal + ["A", "x"]) * rng.choice([200, 5000, 10240])
        elif kind == "nonascii":
            cand = rng.choice(NONASCII)
            if rng.chance(0.3):
                cand = rng.choice(legal) + cand
        elif kind == "digit":
            cand = str(rng.below(12))
        elif kind == "padded_garbage":
            cand = rng.choice(PADS) + "".join(rng.choice(GARBAGE_ALPHABET) for _ in range(rng.between(2, 5)))
        else:  # inner_space
            v = rng.choice([x for x in legal if len(x) > 1] or ["ab"])
            cand = v[:1] + " " + v[1:]
        if "\n" in cand:
            continue
        if spec.classify(version, metric, cand)[0] == "refuse":
            return kind, cand
    return "garbage", "zz9"


def ambiguous_answer(rng, version, metric):
    """An answer on which the statement is silent (classify() == either), or None."""
    sp = spec.SPECS[version]
    legal = sp.values[metric]
    for _ in range(8):
        kind = rng.choice(["pad_left", "pad_right", "pad_both", "blank", "exotic"])
        v = spell(rng, rng.choice(legal), rng.choice(["canonical", "lower", "upper"]))
        if kind == "pad_left":
            cand = rng.choice(PADS) + v
        elif kind == "pad_right":
            cand = v + rng.choice(PADS)
        elif kind == "pad_both":
            cand = rng.choice(PADS) + v + rng.choice(PADS)
        elif kind == "blank":
            cand = rng.choice(PADS) * rng.between(1, 3)
        else:
            idx = [i for i, c in enumerate(v) if c in EXOTIC]
            if not idx:
                continue
            i = rng.choice(idx)
            cand = v[:i] + EXOTIC[v[i]] + v[i + 1:]
        if "\n" in cand:
            continue
        if spec.classify(version, metric, cand)[0] == "either":
            return kind, cand
    return None, None


# ---------------------------------------------------------------------------------------------
# the seeded, reactive user agent
# ---------------------------------------------------------------------------------------------


class LiveAgent(object):
    """Looks at the prompt like a human would, draws an answer class from the run's swarm mix."""

    def __init__(self, rng_answers, rng_faults, swarm, version, all_metrics, labels):
        self.ra = rng_answers
        self.rf = rng_faults
        self.sw = swarm
        self.version = version
        self.sp = spec.SPECS[version]
        self.labels = labels
        self.nq = len(self.sp.metrics(all_metrics))
        self.prev_label = None
        self.same = 0
        self.seen_labels = []
        self.fault_fired = False
        self.counters = {}
        self.unobservable = 0

    def _count(self, k):
        self.counters[k] = self.counters.get(k, 0) + 1

    def _draw(self, metric):
        sw = self.sw
        cls = self.ra.weighted([("legal", sw["w_legal"]), ("empty", sw["w_empty"]),
                                ("illegal", sw["w_illegal"]), ("ambiguous", sw["w_ambiguous"])])
        if self.same >= sw["retry_cap"]:
            cls = "legal"
        if cls == "legal":
            how = self.ra.weighted([(h, w) for h, w in sorted(sw["spelling"].items())])
            if self.same >= sw["retry_cap"] + 1:
                how = "canonical"
            v = self.ra.choice(self.sp.values[metric])
            self._count("answer.legal." + how)
            return spell(self.ra, v, how)
        if cls == "empty":
            self._count("answer.empty")
            return ""
        if cls == "illegal":
            kind, text = illegal_answer(self.ra, self.version, metric)
            self._count("answer.illegal." + kind)
            return text
        kind, text = ambiguous_answer(self.ra, self.version, metric)
        if text is None:
            self._count("answer.legal.canonical")
            return self.ra.choice(self.sp.values[metric])
        self._count("answer.ambiguous." + kind)
        return text

    def answer(self, index, prompt):
        label, offered = runner23.parse_prompt(prompt, self.labels)
        metric = self.labels.get(label)
        if label is not None and label == self.prev_label:
            self.same += 1
        else:
            self.same = 0
            if label is not None:
                self.seen_labels.append(label)
        self.prev_label = label
        if self.same > 0:
            self._count("probe.reasked")
        if self.same >= 3:
            self._count("probe.retries_ge3_on_one_metric")
        # ---- fault plan ----
        plan = self.sw["fault"]
        fire = False
        if plan["kind"] != "none" and not self.fault_fired:
            where = plan["where"]
            if where == "index":
                fire = index == plan["k"]
            elif where == "first":
                fire = index == 0
            elif where == "last":
                fire = len(self.seen_labels) >= self.nq
            elif where == "after_refusal":
                fire = self.same > 0
        if metric is None or metric not in self.sp.values:
            # cannot tell what is being asked: keep the session moving, count it
            self.unobservable += 1
            self.blind_streak = getattr(self, "blind_streak", 0) + 1
            if self.same >= 6 or self.blind_streak >= 8:
                return "e", ""
            return "l", (offered[0] if offered else "N")
        self.blind_streak = 0
        if self.same >= self.sw["retry_cap"] + 8:
            # a (defective) program that refuses everything we know to be legal: end the session
            self._count("probe.gave_up")
            return "e", ""
        if self.same >= self.sw["retry_cap"] + 4 and offered:
            return "l", offered[self.same % len(offered)]
        if fire:
            self.fault_fired = True
            if index == 0:
                self._count("probe.fault_on_first_prompt")
            if self.same > 0:
                self._count("probe.fault_right_after_refusal")
            if len(self.seen_labels) >= self.nq:
                self._count("probe.fault_on_last_question")
            if plan["kind"] == "eof":
                self._count("fault.eof")
                return "e", ""
            text = self._draw(metric)
            if text == "":
                self._count("fault.eof")
                return "e", ""
            self._count("fault.eof_midline")
            return "m", text
        return "l", self._draw(metric)


def draw_swarm(rng, version=None):
    sw = {}
    sw["version"] = version or rng.choice(list(spec.VERSIONS))
    sw["all"] = rng.chance(0.55)
    sw["nocolor"] = rng.chance(0.5)
    sw["alt_version_spelling"] = rng.chance(0.2)
    sw["w_legal"] = rng.choice([2, 4, 10, 30])
    sw["w_empty"] = rng.choice([0, 1, 3, 8])
    sw["w_illegal"] = rng.choice([0, 1, 3, 8])
    sw["w_ambiguous"] = rng.choice([0, 0, 1, 3])
    sw["retry_cap"] = rng.choice([1, 2, 4, 7])
    sw["spelling"] = {"canonical": rng.choice([1, 4]), "lower": rng.choice([0, 1, 3]),
                      "upper": rng.choice([0, 1]), "mixed": rng.choice([0, 1, 2])}
    nq = len(spec.SPECS[sw["version"]].metrics(sw["all"]))
    kind = rng.weighted([("none", 6), ("eof", 3), ("eof_midline", 2)])
    where = rng.weighted([("index", 4), ("first", 1), ("last", 2), ("after_refusal", 2)])
    sw["fault"] = {"kind": kind, "where": where, "k": rng.below(nq * 2 + 2)}
    return sw


# ---------------------------------------------------------------------------------------------
# the reference model / oracle: judges a recorded session
# ---------------------------------------------------------------------------------------------


def walk(version, labels, events):
    """Reconstruct the question/answer history from the terminal events.
    -> list of reads: {"label","metric","kind","text","offered"} in order."""
    reads = []
    last_out = ""
    for ev in events:
        if ev[0] == "o":
            last_out = ev[1]
        elif ev[0] == "r":
            label, offered = runner23.parse_prompt(last_out, labels)
            reads.append({"label": label, "metric": labels.get(label), "kind": ev[1], "text": ev[2],
                          "offered": offered, "fresh": "\n" in last_out or not reads})
            last_out = ""
    return reads


def split_fields(version, returned):
    """-> (prefix_ok, [fields]) for a returned builder string."""
    prefix = spec.PREFIX[version]
    if not returned.startswith(prefix):
        return False, returned.split("/")
    body = returned[len(prefix):]
    return True, (body.split("/") if body != "" else [])


def judge(item, res, labels, cls_ctor=None):
    """All C16 clauses on one recorded session. Returns (violations, info)."""
    version, all_metrics = item["version"], item["all"]
    sp = spec.SPECS[version]
    expected = sp.metrics(all_metrics)
    vio = []
    info = {"refusals": 0, "noncanonical": 0, "faults": 0, "either": 0, "unobservable": 0,
            "accepted": 0, "questions": 0}
    reads = walk(version, labels, res["events"])
    accepted = []  # (metric, value, how-classified)
    ended_by_eof = False
    n = len(reads)
    for i, r in enumerate(reads):
        if r["kind"] == "e":
            ended_by_eof = True
            info["faults"] += 1
            continue  # nothing was answered
        if r["kind"] == "m":
            info["faults"] += 1
        metric = r["metric"]
        if metric is None or metric not in sp.values:
            info["unobservable"] += 1
            continue
        # outcome: accepted iff the question is not repeated
        if i + 1 < n:
            nxt = reads[i + 1]
            if nxt["label"] == r["label"]:
                outcome = "refused"
            else:
                outcome = "accepted"
        else:
            if res["returned"] is not None:
                outcome = "accepted"
            else:
                outcome = "unknown"  # session was cut (abort/exception) right after this answer
        # (an answer without newline followed by end of input needs no special case: the EOF is
        # the next read, and the question it arrives at shows whether the answer was accepted)
        want, value = spec.classify(version, metric, r["text"])
        shown = r["text"] if len(r["text"]) <= 24 else r["text"][:10] + "...(%d chars)" % len(r["text"])
        if outcome == "refused":
            info["refusals"] += 1
            if want == "accept":
                how = "empty" if r["text"] == "" else ("canonical" if r["text"] == value else
                                                      "lower" if r["text"] == value.lower() else
                                                      "upper" if r["text"] == value.upper() else "mixed")
                vio.append(violation(PROP, "b", "refused-legal:%s:%s:%s" % (version, metric, value),
                                     "v%s %s: legal answer %r (%s spelling of %s) was refused" %
                                     (version, metric, shown, how, value)))
        elif outcome == "accepted":
            info["accepted"] += 1
            if want == "refuse":
                kind = "empty-mandatory" if r["text"] == "" else "illegal"
                vio.append(violation(PROP, "b", "accepted-illegal:%s:%s:%s" % (version, metric, kind),
                                     "v%s %s: answer %r is not a legal value but was accepted" %
                                     (version, metric, shown)))
                accepted.append((metric, None, "illegal"))
            else:
                if want == "either":
                    info["either"] += 1
                accepted.append((metric, value, want))
                if r["text"] != value:
                    info["noncanonical"] += 1
    info["questions"] = len(set(r["label"] for r in reads if r["label"]))
    # ---- clause a: question set ----
    asked = []
    for r in reads:
        if r["metric"] is not None and (not asked or asked[-1] != r["metric"]):
            asked.append(r["metric"])
    acc_metrics = [m for m, _, _ in accepted]
    for m in set(asked):
        if m not in expected:
            vio.append(violation(PROP, "a", "asked-outside-set:%s:%s:%s" % (version, "all" if all_metrics else "mandatory", m),
                                 "v%s %s: metric %s was asked but is not in the requested set" %
                                 (version, "all metrics" if all_metrics else "mandatory only", m)))
    if len(set(acc_metrics)) != len(acc_metrics):
        dup = sorted(set(m for m in acc_metrics if acc_metrics.count(m) > 1))
        vio.append(violation(PROP, "a", "asked-twice:%s:%s" % (version, ",".join(dup)),
                             "v%s: metric(s) %s asked again after an accepted answer" % (version, ",".join(dup))))
    # ---- termination (clause f) ----
    if res["aborted"]:
        vio.append(violation(PROP, "f", "no-termination:%s" % version,
                             "v%s: builder %s (%s)" %
                             (version, res.get("abort_reason") or ("still reading after %d reads" % res["reads"]),
                              "after end of input" if ended_by_eof else "answers were legal")))
        return vio, info
    if res["exc"] is not None:
        if not ended_by_eof:
            vio.append(violation(PROP, "f", "exception:%s:%s" % (version, res["exc"][0]),
                                 "v%s: builder raised %s: %s" % (version, res["exc"][0], res["exc"][1][:200])))
        return vio, info
    returned = res["returned"]
    if returned is None:
        return vio, info
    # ---- the builder returned ----
    if info["unobservable"]:
        return vio, info  # cannot attribute answers to metrics: claim nothing about the result
    if not res.get("returned_is_text", True):
        vio.append(violation(PROP, "c", "returned-not-a-string:%s" % version, "v%s: builder returned %r" % (version, returned)))
        return vio, info
    missing = [m for m in expected if m not in set(asked)]
    if missing:
        vio.append(violation(PROP, "a", "not-asked:%s:%s:%s" % (version, "all" if all_metrics else "mandatory", ",".join(missing)),
                             "v%s %s: builder returned without asking %s" %
                             (version, "all metrics" if all_metrics else "mandatory only", ",".join(missing))))
    prefix_ok, fields = split_fields(version, returned)
    if not prefix_ok:
        vio.append(violation(PROP, "c", "wrong-prefix:%s" % version,
                             "v%s: returned %r does not start with %r" % (version, returned[:40], spec.PREFIX[version])))
    if all(v is not None for _, v, _ in accepted):
        want_fields = sorted("%s:%s" % (m, v) for m, v, _ in accepted)
        if sorted(fields) != want_fields:
            extra = sorted(set(fields) - set(want_fields))
            lack = sorted(set(want_fields) - set(fields))
            what = "fields-differ"
            vio.append(violation(PROP, "c", "%s:%s" % (what, version),
                                 "v%s: returned vector is not exactly the accepted answers (unexpected %s, missing %s)" %
                                 (version, extra[:4], lack[:4])))
    # ---- clause d: the class accepts it, and agrees on what was defined ----
    if cls_ctor is not None and not vio:
        try:
            obj = cls_ctor(returned)
        except Exception as e:
            vio.append(violation(PROP, "d", "class-rejects:%s:%s" % (version, type(e).__name__),
                                 "v%s: %s(%r) raised %s: %s" % (version, sp.cls, returned[:120], type(e).__name__, e)))
        else:
            clean = obj.clean_vector()
            ok, cfields = split_fields(version, clean)
            want_defined = sorted("%s:%s" % (m, v) for m, v, _ in accepted if v != sp.nd)
            if sorted(cfields) != want_defined:
                vio.append(violation(PROP, "d", "clean-differs:%s" % version,
                                     "v%s: clean_vector() of the returned vector defines %s, the accepted answers defined %s" %
                                     (version, sorted(set(cfields) - set(want_defined))[:6] or cfields[:6],
                                      sorted(set(want_defined) - set(cfields))[:6] or want_defined[:6])))
    return vio, info


# ---------------------------------------------------------------------------------------------
# engine
# ---------------------------------------------------------------------------------------------


class DirectedAgent(object):
    """Clause e: selects one given value (in a given spelling) for one metric, first legal value
    (canonical) everywhere else; ends the session if the target is refused."""

    def __init__(self, version, labels, metric, text):
        self.sp = spec.SPECS[version]
        self.labels = labels
        self.metric = metric
        self.text = text
        self.tries = {}

    def answer(self, index, prompt):
        label, offered = runner23.parse_prompt(prompt, self.labels)
        m = self.labels.get(label)
        n = self.tries.get(label, 0)
        self.tries[label] = n + 1
        if m is None or m not in self.sp.values or n >= 2:
            return "e", ""
        if m == self.metric:
            if n == 0:
                return "l", self.text
            return "e", ""
        return "l", self.sp.values[m][n % len(self.sp.values[m])]


def sweep_cases():
    """The finite sub-sweep of clause e: every (version, metric, legal value, spelling)."""
    cases = []
    for version in spec.VERSIONS:
        sp = spec.SPECS[version]
        for metric in sp.order:
            for value in sp.values[metric]:
                seen = set()
                for how in ("canonical", "lower", "upper"):
                    text = spell(None, value, how)
                    if text in seen:
                        continue
                    seen.add(text)
                    cases.append((version, metric, value, how, text))
                if len(value) > 1:
                    for text in (value[0].lower() + value[1:].upper(), value[0].upper() + value[1:].lower(), value.swapcase()):
                        if text not in seen:
                            seen.add(text)
                            cases.append((version, metric, value, "mixed", text))
                if value == sp.nd:
                    cases.append((version, metric, value, "empty", ""))
    return cases


def answer_alphabet(version, metric):
    """A small, deterministic alphabet of representative answers for one question (one per answer
    class of DESIGN 3): used by the bounded sequence sweep."""
    sp = spec.SPECS[version]
    legal = sp.values[metric]
    multi = [v for v in legal if len(v) > 1]
    other = None
    for m in sp.order:
        for v in sp.values[m]:
            if spec.classify(version, metric, v)[0] == "refuse":
                other = v
                break
        if other:
            break
    alpha = [
        ("legal-first", legal[0]),
        ("legal-last-lower", legal[-1].lower()),
        ("empty", ""),
        ("garbage", "zz9"),
        ("prefix-or-plus", multi[0][:-1] if multi and spec.classify(version, metric, multi[0][:-1])[0] == "refuse" else legal[0] + legal[0]),
        ("other-metric-value", other or "Q"),
        ("padded-legal", " " + legal[-1] + " "),
        ("wrong-not-defined", "X" if version == "2" else "ND"),
        ("wrapped-legal", "(" + legal[0] + ")"),
        ("legal-with-full-stop", legal[-1] + "."),
        ("value-name", (value_names(version, metric) or ["Zz"])[0]),
        ("legal-then-second-word", legal[0] + " foo"),
        ("legal-mixed-case", multi[0][0].lower() + multi[0][1:].upper() if multi else legal[0].lower()),
    ]
    return alpha


N_ALPHA = 13


def seq_cases(max_len):
    """Bounded sequence sweep: every answer sequence of length 1..max_len over the 8-class alphabet,
    at every metric of every version (the sequence is served while the question is repeated)."""
    import itertools

    cases = []
    for version in spec.VERSIONS:
        sp = spec.SPECS[version]
        for metric in sp.order:
            for n in range(1, max_len + 1):
                for combo in itertools.product(range(N_ALPHA), repeat=n):
                    cases.append((version, metric, combo))
    return cases


class SequenceAgent(object):
    """Serves a fixed answer sequence at one metric (as long as that question is repeated), the first
    legal value everywhere else and once the sequence is used up."""

    def __init__(self, version, labels, metric, answers):
        self.sp = spec.SPECS[version]
        self.labels = labels
        self.metric = metric
        self.answers = list(answers)
        self.tries = {}

    def answer(self, index, prompt):
        label, offered = runner23.parse_prompt(prompt, self.labels)
        m = self.labels.get(label)
        n = self.tries.get(label, 0)
        self.tries[label] = n + 1
        if m is None or m not in self.sp.values or n >= len(self.answers) + 3:
            return "e", ""
        if m == self.metric and n < len(self.answers):
            return "l", self.answers[n]
        k = n - (len(self.answers) if m == self.metric else 0)
        return "l", self.sp.values[m][k % len(self.sp.values[m])]


class BuilderEngine(object):
    prop = PROP
    isolate_runs = True  # every run in a forked child of the worker (no state leaks from run to run)

    def __init__(self, seed=0, mode="random", max_len=2):
        self.seed = seed
        self.mode = mode
        self.labels = dict((v, spec.label_map(v)) for v in spec.VERSIONS)
        import cvss

        self.ctors = {"CVSS2": cvss.CVSS2, "CVSS3": cvss.CVSS3, "CVSS4": cvss.CVSS4}
        self.cases = sweep_cases() if mode == "sweep" else (seq_cases(max_len) if mode == "seqsweep" else None)

    # -- one seeded run -----------------------------------------------------------------
    def run_one(self, index):
        if self.mode == "sweep":
            return self.run_sweep(index)
        if self.mode == "seqsweep":
            return self.run_seq(index)
        run_seed = mix(self.seed, PROP, index)
        rng = Rng(run_seed)
        if rng.fork("kind").chance(0.12):
            return self.run_multi(index, run_seed, rng)
        sw = draw_swarm(rng.fork("swarm"))
        agent = LiveAgent(rng.fork("workload"), rng.fork("faults"), sw, sw["version"], sw["all"],
                          self.labels[sw["version"]])
        rec = runner23.ScriptAgent([], fallback=agent)
        res = runner23.run_builder(sw["version"], sw["all"], sw["nocolor"], rec, MAX_READS, alt_spelling=sw["alt_version_spelling"])
        item = {"k": "builder", "version": sw["version"], "all": sw["all"], "nocolor": sw["nocolor"],
                "script": rec.served, "cap": MAX_READS, "alt_version_spelling": sw["alt_version_spelling"]}
        trace = {"engine": "builder", "run_seed": run_seed, "run_index": index, "swarm": sw, "item": item}
        out = self.assess(trace, res)
        for k, n in agent.counters.items():
            out["counters"][k] = out["counters"].get(k, 0) + n
        return out

    # -- several builder calls in ONE fresh process (state that survives between calls) -----
    def run_multi(self, index, run_seed, rng):
        from .engine_state import fork_run

        n = rng.fork("n").choice([2, 2, 3])
        sws = []
        for k in range(n):
            sw = draw_swarm(rng.fork("swarm%d" % k))
            if k > 0 and rng.fork("rel%d" % k).chance(0.65):
                # related to the previous call: same version family, other minor version / other mode
                prev = sws[-1]
                rel = rng.fork("relkind%d" % k).choice(["same", "other_mode", "other_minor", "other_mode_and_minor"])
                sw["version"] = prev["version"]
                sw["all"] = prev["all"]
                if "mode" in rel:
                    sw["all"] = not prev["all"]
                if "minor" in rel and prev["version"] in ("3.0", "3.1"):
                    sw["version"] = "3.1" if prev["version"] == "3.0" else "3.0"
                nq = len(spec.SPECS[sw["version"]].metrics(sw["all"]))
                sw["fault"]["k"] = sw["fault"]["k"] % (nq * 2 + 2)
            sws.append(sw)

        def child():
            out = []
            for k, sw in enumerate(sws):
                agent = LiveAgent(rng.fork("workload%d" % k), rng.fork("faults%d" % k), sw, sw["version"], sw["all"],
                                  self.labels[sw["version"]])
                rec = runner23.ScriptAgent([], fallback=agent)
                res = runner23.run_builder(sw["version"], sw["all"], sw["nocolor"], rec, MAX_READS,
                                           alt_spelling=sw["alt_version_spelling"])
                out.append([rec.served, res, agent.counters])
            return out

        results = fork_run(child)
        items = []
        for sw, (served, res, counters) in zip(sws, results):
            items.append({"k": "builder", "version": sw["version"], "all": sw["all"], "nocolor": sw["nocolor"],
                          "script": served, "cap": MAX_READS, "alt_version_spelling": sw["alt_version_spelling"]})
        trace = {"engine": "builder", "run_seed": run_seed, "run_index": index, "items": items}
        out = self.assess_multi(trace, [r[1] for r in results])
        for _, _, counters in results:
            for k, c in counters.items():
                out["counters"][k] = out["counters"].get(k, 0) + c
        return out

    def assess_multi(self, trace, results):
        outs = []
        for k, (item, res) in enumerate(zip(trace["items"], results)):
            o = self.assess({"item": item}, res)
            for v in o["violations"]:
                if k > 0:
                    prev = trace["items"][k - 1]
                    v["message"] += " [call #%d of the process; the call before it was ask_interactively(%s, all_metrics=%s)%s]" % (
                        k + 1, prev["version"], prev["all"], " ended by end of input" if results[k - 1]["exc"] else "")
            outs.append(o)
        vio, seen = [], set()
        counters = {}
        for o in outs:
            for v in o["violations"]:
                if v["sig"] not in seen:
                    seen.add(v["sig"])
                    vio.append(v)
            for k, c in o["counters"].items():
                counters[k] = counters.get(k, 0) + c
        counters["runs.several_builder_calls_in_one_process"] = 1
        return {"trace": trace, "digest": runner23.digest([o["digest"] for o in outs]), "violations": vio, "counters": counters,
                "nontrivial": any(o["nontrivial"] for o in outs), "steps": sum(o["steps"] for o in outs),
                "sample": {"calls_in_one_process": [o["sample"] for o in outs]}}

    def run_sweep(self, index):
        version, metric, value, how, text = self.cases[index]
        sp = spec.SPECS[version]
        all_metrics = metric not in sp.mandatory
        agent = DirectedAgent(version, self.labels[version], metric, text)
        rec = runner23.ScriptAgent([], fallback=agent)
        res = runner23.run_builder(version, all_metrics, True, rec, MAX_READS)
        item = {"k": "builder", "version": version, "all": all_metrics, "nocolor": True,
                "script": rec.served, "cap": MAX_READS}
        trace = {"engine": "builder", "sweep_case": [version, metric, value, how], "item": item}
        out = self.assess(trace, res)
        out["counters"]["sweep.sessions"] = 1
        # the target must have been selected (the model's clause b/c flag a refusal; in addition the
        # directed session must have reached the target question at all)
        reads = walk(version, self.labels[version], res["events"])
        if not any(r["metric"] == metric for r in reads) and not out["violations"]:
            out["violations"].append(violation(PROP, "e", "target-never-asked:%s:%s" % (version, metric),
                                               "v%s: directed session never reached the question for %s" % (version, metric)))
        return out

    def run_seq(self, index):
        version, metric, combo = self.cases[index]
        sp = spec.SPECS[version]
        alpha = answer_alphabet(version, metric)
        answers = [alpha[i][1] for i in combo]
        all_metrics = metric not in sp.mandatory
        agent = SequenceAgent(version, self.labels[version], metric, answers)
        rec = runner23.ScriptAgent([], fallback=agent)
        res = runner23.run_builder(version, all_metrics, True, rec, MAX_READS)
        item = {"k": "builder", "version": version, "all": all_metrics, "nocolor": True, "script": rec.served, "cap": MAX_READS}
        trace = {"engine": "builder", "seq_case": [version, metric, [alpha[i][0] for i in combo]], "item": item}
        out = self.assess(trace, res)
        out["counters"]["seqsweep.sessions"] = 1
        return out

    # -- replay / shrink ------------------------------------------------------------------
    def execute(self, trace, shrinking=False):
        if "items" in trace:
            from .engine_state import fork_run

            def child():
                out = []
                for item in trace["items"]:
                    rec = runner23.ScriptAgent(item["script"], fallback=runner23.FirstOfferedAgent() if shrinking else None)
                    res = runner23.run_builder(item["version"], item["all"], item["nocolor"], rec, item.get("cap", MAX_READS),
                                               alt_spelling=item.get("alt_version_spelling", False))
                    out.append([rec.served, res])
                return out

            results = fork_run(child)
            t = dict(trace)
            t["items"] = [dict(it, script=[list(x) for x in served]) for it, (served, _) in zip(trace["items"], results)]
            return self.assess_multi(t, [r[1] for r in results])
        item = trace["item"]
        fallback = runner23.FirstOfferedAgent() if shrinking else None
        rec = runner23.ScriptAgent(item["script"], fallback=fallback)
        res = runner23.run_builder(item["version"], item["all"], item["nocolor"], rec, item.get("cap", MAX_READS),
                                   alt_spelling=item.get("alt_version_spelling", False))
        t = dict(trace)
        t["item"] = dict(item)
        t["item"]["script"] = [list(x) for x in rec.served]
        return self.assess(t, res)

    def assess(self, trace, res):
        item = trace["item"]
        vio, info = judge(item, res, self.labels[item["version"]], self.ctors[spec.CLASS_OF[item["version"]]])
        dg = runner23.digest([item["version"], item["all"], item["nocolor"], res["events"], res["returned"],
                              res["exc"], res["aborted"]])
        counters = {"sessions": 1,
                    "sessions.returned": 1 if res["returned"] is not None else 0,
                    "sessions.cut_by_eof": 1 if (res["exc"] and res["exc"][0] == "EOFError") else 0,
                    "refusals": info["refusals"], "accepted_answers": info["accepted"],
                    "either_outcomes": info["either"], "unobservable_reads": info["unobservable"],
                    "sessions.unobservable": 1 if info["unobservable"] else 0,
                    "config.%s.%s" % (item["version"], "all" if item["all"] else "mandatory"): 1,
                    "config.version_passed_as_other_numeric_type": 1 if item.get("alt_version_spelling") else 0}
        nontrivial = bool(info["refusals"] or info["noncanonical"] or info["faults"])
        return {"trace": trace, "digest": dg, "violations": vio, "counters": counters,
                "nontrivial": nontrivial, "steps": res["reads"],
                "sample": {"config": [item["version"], item["all"], item["nocolor"]],
                           "script": item["script"][:40], "returned": res["returned"], "exc": res["exc"]},
                "result": res}

    def trace_size(self, trace):
        if "items" in trace:
            return sum(self.trace_size({"item": it}) for it in trace["items"]) + 30 * len(trace["items"])
        it = trace["item"]
        return len(it["script"]) * 4 + sum(min(len(a[1]), 40) for a in it["script"]) + (2 if it["all"] else 0)

    def shrink_candidates(self, trace):
        if "items" in trace:
            items = trace["items"]
            if len(items) == 1:
                yield dict((k, v) for k, v in list(trace.items()) + [("item", items[0])] if k != "items")
            for cand in list_deletions(items):
                if cand:
                    yield dict(trace, items=cand)
            for i, it in enumerate(items):
                for c in self.shrink_candidates({"item": it}):
                    yield dict(trace, items=items[:i] + [c["item"]] + items[i + 1:])
            return
        it = trace["item"]

        def with_item(**kw):
            t = dict(trace)
            t["item"] = dict(it)
            t["item"].update(kw)
            return t

        for cand in list_deletions(it["script"]):
            yield with_item(script=cand)
        if it["all"]:
            yield with_item(all=False)
        if not it["nocolor"]:
            yield with_item(nocolor=True)
        if it.get("alt_version_spelling"):
            yield with_item(alt_version_spelling=False)
        sp = spec.SPECS[it["version"]]
        for i, a in enumerate(it["script"]):
            for simpler in self._simpler(a, sp):
                s = [list(x) for x in it["script"]]
                s[i] = simpler
                yield with_item(script=s)

    @staticmethod
    def _simpler(a, sp):
        kind, text = a
        if kind == "m":
            yield ["l", text]
        if len(text) > 3:
            yield [kind, text[:3]]
            yield [kind, text[:1]]
        if text and text != text.strip():
            yield [kind, text.strip()]


def make_engine(seed=0, mode="random", max_len=2):
    return BuilderEngine(seed, mode, max_len)

# -*- coding: utf-8 -*-
"""`./check setup`: nothing to build (pure Python) -- verify that what the checks rely on is there."""
import json
import os
import subprocess

from . import core, spec

PYENV = "/root/.pyenv/versions"
INTERPRETERS = ["2.7.18", "3.6.15", "3.7.16", "3.8.18", "3.9.18", "3.10.13", "3.11.7", "3.12.1", "3.13.0"]


def interpreters():
    """[(version, path)] of the interpreters that are present and start."""
    out = []
    for v in INTERPRETERS:
        p = os.path.join(PYENV, v, "bin", "python")
        if os.path.exists(p):
            out.append((v, p))
    return out


def main():
    repo = core.attach_repo()
    import cvss

    print("setup: cvss %s imported from %s" % (getattr(cvss, "__version__", "?"), os.path.dirname(cvss.__file__)))
    # the pinned official patterns vs the schemas shipped with the repository's tests (warning only)
    for key, pat in sorted(spec.PATTERNS.items()):
        path = os.path.join(repo, "tests", "schemas", "cvss-v%s.json" % key)
        if not os.path.exists(path):
            print("setup: note: %s absent, pinned pattern %s not cross-checked" % (path, key))
            continue
        with open(path) as f:
            text = json.dumps(json.load(f))
        if json.dumps(pat)[1:-1] not in text:
            print("setup: warning: pinned vectorString pattern %s differs from %s" % (key, path))
    found = interpreters()
    print("setup: %d of %d interpreters present: %s" % (len(found), len(INTERPRETERS), " ".join(v for v, _ in found)))
    for v, p in found:
        try:
            r = subprocess.run([p, "-c", "import sys; print(sys.version_info[:3])"], stdout=subprocess.PIPE,
                               stderr=subprocess.STDOUT, timeout=60)
            if r.returncode != 0:
                print("setup: warning: %s does not start: %s" % (p, r.stdout.decode("utf-8", "replace")[:200]))
        except Exception as e:  # noqa: B902
            print("setup: warning: %s does not start: %s" % (p, e))
    os.makedirs(core.EVIDENCE, exist_ok=True)
    os.makedirs(core.OUT, exist_ok=True)
    print("setup: ok")
    return 0

# -*- coding: utf-8 -*-
"""
runner23 -- the part of the simulator that touches the code under test, written in the Python 2/3
common subset so that the *same recorded trace* can be executed under every interpreter
(/root/.pyenv/versions/*) as well as in-process under /venv's 3.12.

It owns the seams S1-S4 and S9 of DESIGN.md:
  * SimStdin / SimStdout / SimStderr  -- the simulated terminal (the only way the code under test
    can read input or write output while a run is in progress);
  * run_builder()  -- real cvss.interactive.ask_interactively under the simulated terminal;
  * run_cli()      -- real cvss.cvss_calculator.main() with sys.argv/stdin/stdout/stderr replaced
    and the module attribute `ask_interactively` wrapped by a recorder (seam S4);
  * Interp         -- interpreter for API operation histories on live objects (constructions,
    accessor calls, comparisons, client faults on held dicts, text extraction).

Nothing in here draws random numbers or reads a clock: what happens is a pure function of the
trace and of the code under test.  Results are canonical JSON-able values (see canon()).
"""
from __future__ import division, print_function, unicode_literals

import hashlib
import json
import sys

PY2 = sys.version_info[0] == 2
if PY2:
    text_type = unicode  # noqa: F821
    binary_type = str
    int_types = (int, long)  # noqa: F821
else:
    text_type = str
    binary_type = bytes
    int_types = (int,)


def to_text(x):
    if isinstance(x, text_type):
        return x
    if isinstance(x, binary_type):
        return x.decode("utf-8", "replace")
    return text_type(x)


def dumps(x):
    return json.dumps(x, sort_keys=True, ensure_ascii=True, separators=(",", ":"))


def digest(x):
    return hashlib.sha256(dumps(x).encode("ascii")).hexdigest()


# --------------------------------------------------------------------------------------------
# canonical values
# --------------------------------------------------------------------------------------------


def canon(x, depth=0):
    """Canonical, JSON-able, interpreter-independent rendering of a result value.
    floats keep their type (a score that silently became an int or a Decimal is visible)."""
    import decimal

    if depth > 8:
        return ["deep"]
    if x is None or x is True or x is False:
        return x
    if isinstance(x, float):
        return ["f", repr(x)]
    if isinstance(x, int_types):
        return x
    if isinstance(x, (text_type, binary_type)):
        return to_text(x)
    if isinstance(x, decimal.Decimal):
        return ["D", to_text(str(x))]
    if isinstance(x, (tuple, list)):
        return ["t" if isinstance(x, tuple) else "l", [canon(v, depth + 1) for v in x]]
    if isinstance(x, dict):
        return ["d", [[canon(k, depth + 1), canon(v, depth + 1)] for k, v in x.items()]]
    if isinstance(x, (set, frozenset)):
        return ["s", sorted(dumps(canon(v, depth + 1)) for v in x)]
    return ["obj", type(x).__name__]


def exc_info(e):
    """[class name, message, is-a-CVSSError, names of the cvss exception bases]."""
    try:
        msg = text_type(e)
    except Exception:  # py2: byte message that is not ASCII
        try:
            msg = to_text(bytes(e))
        except Exception:
            msg = "<unprintable>"
    bases = []
    is_cvss = False
    for c in type(e).__mro__:
        if c.__module__.startswith("cvss"):
            bases.append(c.__name__)
            if c.__name__ == "CVSSError":
                is_cvss = True
    return [type(e).__name__, msg, is_cvss, bases]


# --------------------------------------------------------------------------------------------
# simulated terminal (seams S1, S2)
# --------------------------------------------------------------------------------------------


class SimAbort(BaseException):
    """Raised by the simulator itself (read cap); never caught by the code under test."""


class Terminal(object):
    """Event-recording terminal. Every read is a simulator event at which the agent acts.

    events:  ["o", text]            text written to stdout since the previous event
             ["r", kind, text]      a read served: kind "l" = full line (text + newline),
                                    "m" = text without newline followed by end of input,
                                    "e" = end of input
    """

    def __init__(self, agent, max_reads=500):
        self.agent = agent
        self.max_reads = max_reads
        self.pending = []
        self.events = []
        self.err = []
        self.reads = 0
        self.eof = False
        self.eof_delivered = False
        self.reads_after_eof = 0
        self.aborted = False
        self.abort_reason = None
        self.written = 0
        self.on_read = None  # optional callback(prompt) used by informational fault kinds

    # a complete v4 all-metrics session prints ~10 kB; a report for a 10 kB vector ~40 kB. A program that
    # has written 8 MB is printing in a loop that never reads: same verdict as reading without end
    MAX_WRITTEN = 8 * 1024 * 1024

    def _count(self, s):
        self.written += len(s)
        if self.written > self.MAX_WRITTEN:
            self.aborted = True
            self.abort_reason = "still writing after %d characters of output and %d reads" % (self.written, self.reads)
            self.pending = self.pending[-50:]
            self.err = self.err[-50:]
            raise SimAbort(self.abort_reason)

    def write_out(self, s):
        s = to_text(s)
        self.pending.append(s)
        self._count(s)

    def write_err(self, s):
        s = to_text(s)
        self.err.append(s)
        self._count(s)

    def flush_pending(self):
        if self.pending:
            out = "".join(self.pending)
            self.pending = []
            self.events.append(["o", out])
            return out
        return ""

    def read(self):
        self.reads += 1
        if self.reads > self.max_reads:
            self.aborted = True
            self.abort_reason = "still reading after %d reads" % (self.reads - 1)
            raise SimAbort("read cap of %d exceeded" % self.max_reads)
        out = self.flush_pending()
        if self.eof:
            # end of input is sticky; the first "e" after a mid-line end *is* the end of input,
            # only reads that follow a delivered end of input count as reads_after_eof
            if self.eof_delivered:
                self.reads_after_eof += 1
            self.eof_delivered = True
            self.events.append(["r", "e", ""])
            return ""
        prompt = out  # everything written since the previous read (parse_prompt looks at its last line first)
        if self.on_read is not None:
            self.on_read(self, prompt)
        kind, text = self.agent.answer(self.reads - 1, prompt)
        if kind == "m" and text == "":
            kind = "e"
        self.events.append(["r", kind, text])
        if kind == "e":
            self.eof = True
            self.eof_delivered = True
            return ""
        if kind == "m":
            self.eof = True
            return text
        return text + "\n"

    def stdout_text(self):
        return "".join(ev[1] for ev in self.events if ev[0] == "o") + "".join(self.pending)

    def stderr_text(self):
        return "".join(self.err)


class SimStdout(object):
    encoding = "utf-8"
    errors = "strict"

    def __init__(self, term, err=False):
        self._term = term
        self._err = err

    def write(self, s):
        if self._err:
            self._term.write_err(s)
        else:
            self._term.write_out(s)
        return len(s)

    def flush(self):
        pass

    def isatty(self):
        return False

    def writable(self):
        return True

    def fileno(self):
        raise IOError("simulated stream has no file descriptor")


class SimStdin(object):
    encoding = "utf-8"
    errors = "strict"

    def __init__(self, term):
        self._term = term

    def readline(self, *args):
        line = self._term.read()
        if PY2:
            return line.encode("utf-8")
        return line

    def read(self, *args):
        return self.readline()

    def isatty(self):
        return False

    def readable(self):
        return True

    def flush(self):
        pass

    def fileno(self):
        raise IOError("simulated stream has no file descriptor")


class _Installed(object):
    """Context manager: replace sys.stdin/stdout/stderr (and optionally argv) by the simulation."""

    def __init__(self, term, argv=None):
        self.term = term
        self.argv = argv

    def __enter__(self):
        self.saved = (sys.stdin, sys.stdout, sys.stderr, sys.argv)
        sys.stdin = SimStdin(self.term)
        sys.stdout = SimStdout(self.term)
        sys.stderr = SimStdout(self.term, err=True)
        if self.argv is not None:
            sys.argv = self.argv
        return self.term

    def __exit__(self, *exc):
        sys.stdin, sys.stdout, sys.stderr, sys.argv = self.saved
        self.term.flush_pending()
        return False


# --------------------------------------------------------------------------------------------
# agents that need no PRNG (replay, fall-back)
# --------------------------------------------------------------------------------------------


def parse_prompt(prompt, names=None):
    """Which question is being asked. Stated format assumption (DESIGN 6.8): the text before a read
    is '<label>: v1/v2/... '. When `names` (the tree's display names) is given and the strict shape
    does not apply or yields an unknown label -- a reworded or re-punctuated prompt -- the question
    is the longest display name that occurs in the prompt (last occurrence wins), so that a cosmetic
    change of the prompt does not blind the simulated user.
    Returns (label, [offered values]) or (None, [])."""
    whole = prompt
    p = prompt.rsplit("\n", 1)[-1].strip()  # the strict shape applies to the last line
    label, offered = None, []
    if ": " in p:
        # (the terminal hands over only the text written since the previous read, so a re-asked
        # prompt is seen on its own although no newline was echoed in between)
        lab, vals = p.rsplit(": ", 1)
        off = vals.strip().split("/")
        if lab and off and not any((not v) or (" " in v) for v in off):
            label, offered = lab, off
    if names is not None and (label is None or label not in names):
        best = None
        for name in names:
            if len(name) < 5:
                continue  # abbreviations are exact labels only
            pos = whole.rfind(name)
            if pos >= 0:
                # prefer the later occurrence, then the longer name ("Modified Scope" over "Scope")
                key = (pos + len(name), len(name))
                if best is None or key > best[0]:
                    best = (key, name)
        if best is not None:
            return best[1], offered
    return label, offered


class FirstOfferedAgent(object):
    """Deterministic fall-back: answers the first value the program offers."""

    def __init__(self):
        self.served = []

    def answer(self, index, prompt):
        label, offered = parse_prompt(prompt)
        a = ["l", offered[0] if offered else "N"]
        self.served.append(a)
        return a[0], a[1]


class ScriptAgent(object):
    """Serves a recorded script read by read; what happens after the script is exhausted is
    decided by `fallback` (None = end of input)."""

    def __init__(self, script, fallback=None):
        self.script = script
        self.fallback = fallback
        self.served = []

    def answer(self, index, prompt):
        if index < len(self.script):
            kind, text = self.script[index][0], self.script[index][1]
        elif self.fallback is not None:
            kind, text = self.fallback.answer(index, prompt)
        else:
            kind, text = "e", ""
        self.served.append([kind, text])
        return kind, text


# --------------------------------------------------------------------------------------------
# builder and CLI under the simulated terminal
# --------------------------------------------------------------------------------------------

VERSION_ARG = {"2": 2, "3.0": 3.0, "3.1": 3.1, "4.0": 4.0}


VERSION_ARG_ALT = {"2": 2.0, "3.0": 3, "3.1": 3.1, "4.0": 4}


def run_builder(version, all_metrics, no_colors, agent, max_reads=500, on_read=None, alt_spelling=False):
    """Real ask_interactively(version, all_metrics, no_colors) under the simulated terminal.
    alt_spelling: pass the version number in its other numeric type (2.0 / 3 / 4 instead of 2 / 3.0 / 4.0)."""
    from cvss import interactive

    term = Terminal(agent, max_reads)
    term.on_read = on_read
    res = {"returned": None, "exc": None, "aborted": False}
    with _Installed(term):
        try:
            varg = (VERSION_ARG_ALT if alt_spelling else VERSION_ARG)[version]
            r = interactive.ask_interactively(varg, all_metrics, no_colors)
            res["returned"] = to_text(r) if isinstance(r, (text_type, binary_type)) else canon(r)
            res["returned_is_text"] = isinstance(r, (text_type, binary_type))
        except SimAbort:
            res["aborted"] = True
        except BaseException as e:  # noqa: B902 - everything that escapes is an observation
            res["exc"] = exc_info(e)
    res["events"] = term.events
    res["stderr"] = term.stderr_text()
    res["reads"] = term.reads
    res["reads_after_eof"] = term.reads_after_eof
    res["aborted"] = bool(res["aborted"] or term.aborted)
    res["abort_reason"] = term.abort_reason
    return res


def run_cli(argv, agent, max_reads=500, on_read=None):
    """Real cvss.cvss_calculator.main() in-process; argv/stdin/stdout/stderr/exit are simulated,
    the value the builder hands to the CLI is observed through the module attribute (seam S4)."""
    import cvss.cvss_calculator as cc

    term = Terminal(agent, max_reads)
    term.on_read = on_read
    res = {"exit": None, "exc": None, "aborted": False, "builder_calls": []}

    def recording_ask(*args, **kwargs):
        call = {"args": canon(list(args)), "kwargs": canon(kwargs), "returned": None}
        res["builder_calls"].append(call)
        try:
            r = real_ask(*args, **kwargs)
        except SimAbort:
            raise
        except BaseException as e:  # noqa: B902 - observed, then passed on unchanged
            call["exc"] = exc_info(e)
            raise
        call["returned"] = to_text(r) if isinstance(r, (text_type, binary_type)) else canon(r)
        return r

    full_argv = ["cvss_calculator"] + list(argv)
    if PY2:
        full_argv = [a.encode("utf-8") for a in full_argv]
    # seam S4: every name through which the CLI can reach the builder -- the attribute(s) of the
    # calculator module bound to the function (whatever they are called), and the function's home
    import cvss as _pkg
    from cvss import interactive as _inter

    patched = []
    real_ask = _inter.ask_interactively
    for mod in (cc, _inter, _pkg):
        for name, val in list(vars(mod).items()):
            if val is real_ask:
                patched.append((mod, name))
                setattr(mod, name, recording_ask)
    try:
        with _Installed(term, full_argv):
            try:
                rv = cc.main()
                res["exit"] = 0
                # the installed console script is `sys.exit(main())`: whatever main() returns
                # becomes the exit status there
                res["main_returned"] = canon(rv)
            except SimAbort:
                res["aborted"] = True
            except SystemExit as e:
                code = e.code
                if code is None:
                    code = 0
                res["exit"] = code if isinstance(code, int_types) else canon(code)
            except BaseException as e:  # noqa: B902
                res["exc"] = exc_info(e)
                res["exit"] = 1
    finally:
        for mod, name in patched:
            setattr(mod, name, real_ask)
    res["events"] = term.events
    res["stdout"] = term.stdout_text()
    res["stderr"] = term.stderr_text()
    res["reads"] = term.reads
    res["reads_after_eof"] = term.reads_after_eof
    res["aborted"] = bool(res["aborted"] or term.aborted)
    res["abort_reason"] = term.abort_reason
    return res


# --------------------------------------------------------------------------------------------
# API operation histories (seams S8, S9)
# --------------------------------------------------------------------------------------------


def _classes():
    import cvss

    return {"CVSS2": cvss.CVSS2, "CVSS3": cvss.CVSS3, "CVSS4": cvss.CVSS4}


ACCESSORS = (
    "scores",
    "severities",
    "clean_vector",
    "rh_vector",
    "temporal_vector",
    "environmental_vector",
    "as_json",
)


def observe(o):
    """Every public observation of one object, canonical."""
    d = {"type": type(o).__name__}
    d["scores"] = canon(o.scores())
    d["severities"] = canon(o.severities())
    d["clean"] = canon(o.clean_vector())
    if type(o).__name__ != "CVSS2":
        d["clean_noprefix"] = canon(o.clean_vector(output_prefix=False))
    d["rh"] = canon(o.rh_vector())
    if hasattr(o, "temporal_vector"):
        d["temporal_vector"] = canon(o.temporal_vector())
        d["environmental_vector"] = canon(o.environmental_vector())
    for sort in (False, True):
        for minimal in (False, True):
            j = o.as_json(sort=sort, minimal=minimal)
            key = "json_s%d_m%d" % (int(sort), int(minimal))
            d[key] = canon(j)
            d[key + "_text"] = to_text(json.dumps(j, indent=2, separators=(",", ": ")))
    d["eq_self"] = canon(o == o)
    d["ne_str"] = canon(o == o.vector)
    d["hash_stable"] = hash(o) == hash(o)
    return d


class BadTrace(Exception):
    """The trace itself is malformed (dangling object reference): not an observation."""


class Interp(object):
    """Executes API ops one at a time on a pool of live objects. Each op result is
    {"ok": value} or {"exc": exc_info}; the library's writes to the (simulated) stdout/stderr
    during the op are part of the result ("out"/"err", normally absent)."""

    def __init__(self):
        self.objs = {}
        self.held = {}
        self.held_ids = {}
        self.log = []

    # -- helpers -------------------------------------------------------------------------
    def _sub_ids(self, x, acc, depth=0):
        if depth > 6:
            return
        if isinstance(x, (dict, list, set)):
            acc.add(id(x))
            vals = x.values() if isinstance(x, dict) else x
            for v in vals:
                self._sub_ids(v, acc, depth + 1)

    def _operand(self, spec):
        if isinstance(spec, dict):
            kind = spec.get("lit")
            if kind == "none":
                return None
            if kind == "str":
                return spec["v"]
            if kind == "dict":
                return {"vectorString": spec.get("v", "")}
            if kind == "int":
                return 7
            if kind == "vector_of":
                return self._obj(spec["v"]).vector
            if kind == "clean_of":
                return self._obj(spec["v"]).clean_vector()
            return spec
        return self._obj(spec)

    def _obj(self, name):
        if name not in self.objs:
            raise BadTrace("no live object %r" % (name,))
        return self.objs[name]

    def _held(self, name):
        if name not in self.held:
            raise BadTrace("no held dict %r" % (name,))
        return self.held[name]

    # -- one op --------------------------------------------------------------------------
    def do(self, op):
        kind = op["op"]
        classes = _classes()
        if kind == "new":
            o = classes[op["cls"]](op["s"])
            if "as" in op:
                self.objs[op["as"]] = o
            return True
        if kind == "rh":
            o = classes[op["cls"]].from_rh_vector(op["s"])
            if "as" in op:
                self.objs[op["as"]] = o
            return True
        if kind == "observe":
            if op.get("how") == "rh":
                o = classes[op["cls"]].from_rh_vector(op["s"])
            else:
                o = classes[op["cls"]](op["s"])
            if "as" in op:
                self.objs[op["as"]] = o
            return observe(o)
        if kind == "observe_obj":
            return observe(self._obj(op["obj"]))
        if kind == "call":
            o = self._obj(op["obj"])
            args = op.get("args") or {}
            kwargs = dict((str(k), v) for k, v in args.items())
            r = getattr(o, op["m"])(**kwargs)
            res = canon(r)
            if op["m"] == "as_json":
                ids = set()
                self._sub_ids(r, ids)
                alias = []
                for name in sorted(self.held_ids):
                    if ids & self.held_ids[name]:
                        alias.append(name)
                if "hold" in op:
                    self.held[op["hold"]] = r
                    self.held_ids[op["hold"]] = ids
                if alias:
                    return {"value": res, "aliases": alias}
            return res
        if kind == "eq":
            a = self._operand(op["a"])
            b = self._operand(op["b"])
            return [canon(a == b), canon(b == a), canon(a != b)]
        if kind == "hash_eq":
            a = self._operand(op["a"])
            b = self._operand(op["b"])
            return [canon(hash(a) == hash(b)), canon(a == b)]
        if kind == "cmp":
            # self-contained comparison: both operands are constructed inside the op
            pair = []
            for side in (op["a"], op["b"]):
                if side.get("how") == "rh":
                    pair.append(classes[side["cls"]].from_rh_vector(side["s"]))
                else:
                    pair.append(classes[side["cls"]](side["s"]))
            a, b = pair
            return [canon(a == b), canon(b == a), canon(a != b), canon(hash(a) == hash(b)),
                    canon(len(set([a, b]))), canon(a.clean_vector() == b.clean_vector())]
        if kind == "hash_twice":
            a = self._operand(op["a"])
            return canon(hash(a) == hash(a))
        if kind == "in_set":
            a = self._operand(op["a"])
            b = self._operand(op["b"])
            return [canon(b in set([a])), canon(len(set([a, b])))]
        if kind == "roundtrip":
            h = self._held(op["held"])
            return canon(json.loads(json.dumps(h)) == json.loads(json.dumps(dict(h))))
        if kind == "dump_held":
            return canon(self._held(op["held"]))
        if kind == "mutate":
            h = self._held(op["held"])
            how = op["how"]
            if how == "clear":
                h.clear()
            elif how == "del":
                keys = list(h.keys())
                if keys:
                    del h[keys[op.get("i", 0) % len(keys)]]
            elif how == "junk":
                keys = list(h.keys())
                if keys:
                    h[keys[op.get("i", 0) % len(keys)]] = op.get("v", "JUNK")
            elif how == "junk_all":
                for k in list(h.keys()):
                    h[k] = op.get("v", "JUNK")
            elif how == "add":
                h[op.get("k", "injected")] = op.get("v", "JUNK")
            elif how == "update":
                h.update(self._held(op["other"]))
            elif how == "popitem":
                if h:
                    h.popitem()
            return canon(len(h))
        if kind == "text":
            from cvss.parser import parse_cvss_from_text

            r = parse_cvss_from_text(op["s"])
            out = []
            for o in r:
                out.append([type(o).__name__, canon(o.vector), canon(o.clean_vector())])
            return {"container": type(r).__name__, "items": out}
        if kind == "drop":
            self.objs.pop(op["obj"], None)
            return True
        if kind == "import_all":
            import importlib
            import os

            import cvss

            root = os.path.dirname(cvss.__file__)
            out = []
            for fn in sorted(os.listdir(root)):
                if fn.endswith(".py"):
                    name = fn[:-3]
                    with open(os.path.join(root, fn), "rb") as f:
                        src = f.read()
                    try:
                        compile(src, fn, "exec")
                        comp = True
                    except SyntaxError as e:
                        comp = ["SyntaxError", to_text(e.msg), e.lineno]
                    try:
                        importlib.import_module("cvss" if name == "__init__" else "cvss." + name)
                        imp = True
                    except BaseException as e:  # noqa: B902
                        imp = exc_info(e)
                    out.append([fn, comp, imp])
            return out
        raise ValueError("unknown op kind %r" % (kind,))

    def run_op(self, op, capture=True):
        """Execute one op; never raises (except SimAbort / KeyboardInterrupt from the harness)."""
        term = Terminal(ScriptAgent([]), max_reads=3)
        res = {}
        if capture:
            ctx = _Installed(term)
            ctx.__enter__()
        try:
            try:
                res["ok"] = self.do(op)
            except SimAbort:
                res["aborted"] = True
            except BadTrace as e:
                res["bad"] = to_text(e)
            except Exception as e:
                res["exc"] = exc_info(e)
        finally:
            if capture:
                ctx.__exit__(None, None, None)
        if capture:
            out = term.stdout_text()
            err = term.stderr_text()
            if out:
                res["out"] = out
            if err:
                res["err"] = err
            if term.reads:
                res["reads"] = term.reads
        return res


# --------------------------------------------------------------------------------------------
# generic "execute one recorded item" used by the cross-interpreter replay (C20)
# --------------------------------------------------------------------------------------------


def run_item(item, interp=None):
    """item: {"k": "api", "ops": [...]} | {"k": "builder", ...} | {"k": "cli", ...}.
    Returns a canonical result."""
    k = item["k"]
    if k == "api":
        it = Interp()
        return {"results": [it.run_op(op) for op in item["ops"]]}
    if k == "builder":
        agent = ScriptAgent(item["script"])
        r = run_builder(item["version"], item["all"], item["nocolor"], agent, item.get("cap", 500),
                        alt_spelling=item.get("alt_version_spelling", False))
        return r
    if k == "cli":
        agent = ScriptAgent(item["script"])
        r = run_cli(item["argv"], agent, item.get("cap", 500))
        return r
    raise ValueError("unknown item kind %r" % (k,))


def main(argv):
    """python runner23.py <repo> <trace.json> <out.json>: execute every item, write results.
    Used for replay under other interpreters; sys.path[0] = <repo>."""
    repo, trace_path, out_path = argv[1], argv[2], argv[3]
    sys.path.insert(0, repo)
    import io

    with io.open(trace_path, "r", encoding="utf-8") as f:
        trace = json.load(f)
    out = {"python": list(sys.version_info[:3]), "results": []}
    try:
        import cvss

        out["cvss_file"] = to_text(cvss.__file__)
    except BaseException as e:  # noqa: B902
        out["import_error"] = exc_info(e) if isinstance(e, Exception) else [type(e).__name__]
        # SyntaxError etc.: every item fails the same way; record once
    for item in trace["items"]:
        try:
            r = run_item(item)
        except BaseException as e:  # noqa: B902
            r = {"runner_exc": [type(e).__name__, to_text(repr(e))]}
        out["results"].append(r)
    data = dumps(out)
    with io.open(out_path, "w", encoding="ascii") as f:
        f.write(to_text(data))
    return 0


if __name__ == "__main__":
    sys.exit(main(sys.argv))

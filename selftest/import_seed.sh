#!/bin/sh
# import_seed.sh <id> <property> "<what it needs to manifest>"   -- copy a sub-agent's deliverables into /verif/seeded/<id>/
set -e
id="$1"; prop="$2"; needs="$3"
src=/tmp/seed-$id/_seeded
dst=/verif/seeded/$id
mkdir -p "$dst"
git -C /tmp/seed-$id diff -- cvss > "$dst/patch.diff"
cp "$src/demo.py" "$dst/demo.py"
[ -f "$src/notes.md" ] && cp "$src/notes.md" "$dst/notes.md"
python3 - "$dst" "$prop" "$needs" <<'PY'
import json,sys
dst,prop,needs=sys.argv[1:4]
json.dump({"property":prop,"needs_to_manifest":needs,"demo":"demo.py","written_by":"independent sub-agent given only the property text and a scratch worktree","ran":[]},open(dst+"/meta.json","w"),indent=1)
PY
echo imported $dst; wc -l "$dst/patch.diff"

# -*- coding: utf-8 -*-
"""
Planted bugs for the sensitivity self-test (DESIGN 2.5): each is a textual replacement in one file
of a scratch copy of the repository.  `expect` names the check that must report a VIOLATION in its
quick tier ("clean" = negative control: no check may alarm).  A mutant is only counted when the
pinned 34 tests still pass with it.
"""

M = []


def mutant(id, expect, file=None, old=None, new=None, note="", edits=None):
    """edits: list of (file, old, new); each `old` must occur exactly once."""
    M.append({"id": id, "expect": expect, "edits": edits or [(file, old, new)], "note": note})


# ------------------------------------------------------------------------------ C16 (builder)
mutant("c16-no-upper", "C16", "cvss/interactive.py",
       "input_value = string_input().strip().upper()",
       "input_value = string_input().strip()",
       "lower-case answers refused")
mutant("c16-empty-accepted-everywhere", "C16", "cvss/interactive.py",
       """                else:
                    input_value = "X"
            if input_value in values_by_upper:""",
       """                else:
                    input_value = "X"
                vector.append(metric + ":" + input_value)
                break
            if input_value in values_by_upper:""",
       "empty answer appended as ND/X without the membership test")
mutant("c16-30-emitted-as-31", "C16", "cvss/interactive.py",
       'vector_string = "CVSS:3.0/" + "/".join(vector)',
       'vector_string = "CVSS:3.1/" + "/".join(vector)')
mutant("c16-last-mandatory-skipped", "C16", "cvss/interactive.py",
       "        metrics = METRICS_MANDATORY\n",
       "        metrics = METRICS_MANDATORY[:-1]\n")
mutant("c16-gives-up-after-3", "C16", "cvss/interactive.py",
       """        while True:
            print(METRICS_ABBREVIATIONS[metric] + ":", end=" ")""",
       """        attempts = 0
        while True:
            attempts += 1
            if attempts > 3:
                vector.append(metric + ":" + list(values)[0])
                break
            print(METRICS_ABBREVIATIONS[metric] + ":", end=" ")""",
       "needs three refused answers in a row on one metric")
mutant("c16-all-metrics-ignored", "C16", "cvss/interactive.py",
       "    if all_metrics:\n        metrics = METRICS_ABBREVIATIONS.keys()",
       "    if all_metrics and version != 2:\n        metrics = METRICS_ABBREVIATIONS.keys()",
       "-a ignored for v2 only")
mutant("c16-stored-under-previous-metric", "C16", "cvss/interactive.py",
       """                vector.append(metric + ":" + values_by_upper[input_value])
                break""",
       """                vector.append((vector[-1].split(":")[0] if vector and input_value == "U" else metric) + ":" + values_by_upper[input_value])
                break""",
       "value U stored under the previous metric's name")
mutant("c16-prefix-matching", "C16", "cvss/interactive.py",
       "            if input_value in values_by_upper:",
       """            _m = [v for v in values_by_upper if v.startswith(input_value)]
            if len(_m) == 1:
                input_value = _m[0]
            if input_value in values_by_upper:""",
       "unique prefixes of multi-letter values accepted (PO -> POC)")
mutant("c16-eof-returns-partial", "C16", "cvss/interactive.py",
       "            input_value = string_input().strip().upper()",
       """            try:
                input_value = string_input().strip().upper()
            except EOFError:
                return "/".join(vector)""",
       "end of input makes the builder return a partial vector")
mutant("c16-strip-removed-NEGATIVE", "clean", "cvss/interactive.py",
       "input_value = string_input().strip().upper()",
       "input_value = string_input().upper()",
       "the statement does not promise that blanks are stripped: must stay green")
mutant("c16-x-accepted-for-nd-v2", "C16", "cvss/interactive.py",
       "            if input_value in values_by_upper:",
       """            if input_value == "X" and "ND" in values_by_upper:
                input_value = "ND"
            if input_value in values_by_upper:""",
       "v2: X accepted as Not Defined")

# ------------------------------------------------------------------------------ C17 (CLI)
mutant("c17-v4-dispatched-to-v3", "C17", "cvss/cvss_calculator.py",
       "                cvss_vector = CVSS4(vector_string)",
       "                cvss_vector = CVSS3(vector_string)")
mutant("c17-zero-score-line-dropped", "C17", "cvss/cvss_calculator.py",
       "                if score:\n",
       "                if score and score[0]:\n",
       "a score of 0.0 (and an undefined v2 score) is not printed")
mutant("c17-json-not-minimal", "C17", "cvss/cvss_calculator.py",
       "as_json(sort=True, minimal=True)", "as_json(sort=True, minimal=False)")
mutant("c17-json-not-sorted", "C17", "cvss/cvss_calculator.py",
       "as_json(sort=True, minimal=True)", "as_json(sort=False, minimal=True)")
mutant("c17-eof-not-caught", "C17", "cvss/cvss_calculator.py",
       "    except (KeyboardInterrupt, EOFError):", "    except KeyboardInterrupt:")
mutant("c17-error-printed-as-repr", "C17", "cvss/cvss_calculator.py",
       "            print(e)\n", "            print(repr(e))\n")
mutant("c17-except-narrowed-to-cvss3", "C17", "cvss/cvss_calculator.py",
       "        except CVSSError as e:",
       "        except __import__('cvss').CVSS3Error as e:",
       "v2 / v4 errors escape as tracebacks")
mutant("c17-rating-off-by-one", "C17", "cvss/cvss_calculator.py",
       'score = scores[i], "({0})".format(severities[i])',
       'score = scores[i], "({0})".format(severities[min(i + 1, len(severities) - 1)])')
mutant("c17-prints-input-instead-of-clean", "C17", "cvss/cvss_calculator.py",
       'print("Cleaned vector:       ", cvss_vector.clean_vector())',
       'print("Cleaned vector:       ", vector_string)')
mutant("c17-builder-always-default-version", "C17", "cvss/cvss_calculator.py",
       "vector_string = ask_interactively(version, args.all, args.no_colors)",
       "vector_string = ask_interactively(DEFAULT_VERSION, args.all, args.no_colors)")
mutant("c17-score-rounded-to-int-when-whole", "C17", "cvss/cvss_calculator.py",
       'score = scores[i], "({0})".format(severities[i])',
       'score = (int(scores[i]) if scores[i] == 10 else scores[i]), "({0})".format(severities[i])',
       "10.0 printed as 10")
mutant("c17-eof-after-last-answer-lost", "C17", "cvss/cvss_calculator.py",
       "            vector_string = ask_interactively(version, args.all, args.no_colors)",
       "            vector_string = ask_interactively(version, args.all, args.no_colors)\n            if args.all and args.json:\n                input()",
       "with -a -j the CLI reads once more after the builder returned")

# ------------------------------------------------------------------------------ C08 (emitted strings)
mutant("c08-v4-order-broken-again", "C08", "cvss/constants4.py",
       """        ("E", "Exploit Maturity"),
        ("CR", "Confidentiality Req."),""",
       """        ("CR", "Confidentiality Req."),
        ("E", "Exploit Maturity"),""")
mutant("c08-v4-builder-double-slash", "C08", "cvss/interactive.py",
       'vector_string = "CVSS:4.0/" + "/".join(vector)',
       'vector_string = "CVSS:4.0/" + "/".join(vector) + ("/" if all_metrics else "")',
       "all-metrics v4 builder result ends in a slash")
mutant("c08-v3-rh-without-prefix", "C08", "cvss/cvss3.py",
       'return str(self.scores()[0]) + "/" + self.clean_vector()',
       'return str(self.scores()[0]) + "/" + self.clean_vector(output_prefix=len(self.original_metrics) < 20)',
       "RH vector of a v3 vector with >= 20 metrics loses its prefix")
mutant("c08-builder-lowercases-u", "C08", "cvss/interactive.py",
       'vector.append(metric + ":" + values_by_upper[input_value])',
       'vector.append(metric + ":" + (input_value if len(input_value) > 3 else values_by_upper[input_value]))',
       "long values emitted upper-cased (RED, CLEAR...)")
mutant("c08-v2-clean-keeps-trailing-slash", "C08", "cvss/cvss2.py",
       """                if value != "ND":
                    vector.append("{0}:{1}".format(metric, value))
        return "/".join(vector)""",
       """                if value != "ND":
                    vector.append("{0}:{1}".format(metric, value))
                else:
                    vector.append("")
        return "/".join(vector)""",
       "an explicit ND leaves an empty field behind")

# ------------------------------------------------------------------------------ C18 (immutable value)
mutant("c18-as-json-cached-per-instance", "C18", edits=[
    ("cvss/cvss3.py",
     """        base_severity, temporal_severity, environmental_severity = self.severities()
""",
     """        base_severity, temporal_severity, environmental_severity = self.severities()
        _cache = self.__dict__.setdefault("_json_cache", {})
        if (sort, minimal) in _cache:
            return _cache[(sort, minimal)]
"""),
    ("cvss/cvss3.py",
     """        if sort:
            data = OrderedDict(sorted(data.items()))
        return data

    def __hash__(self):
        return hash(self.clean_vector())

    def __eq__(self, o):
        if isinstance(o, CVSS3):""",
     """        if sort:
            data = OrderedDict(sorted(data.items()))
        _cache[(sort, minimal)] = data
        return data

    def __hash__(self):
        return hash(self.clean_vector())

    def __eq__(self, o):
        if isinstance(o, CVSS3):""")],
    note="the dict handed out is a per-instance cached one")
mutant("c18-minimal-pops-metrics", "C18", "cvss/cvss2.py",
       """        if not minimal or self.temporal_score:
            for metric in TEMPORAL_METRICS:""",
       """        if minimal and not self.temporal_score:
            for metric in TEMPORAL_METRICS:
                self.metrics.pop(metric, None)
        if not minimal or self.temporal_score:
            for metric in TEMPORAL_METRICS:""",
       "as_json(minimal=True) forgets explicit ND temporal metrics")
mutant("c18-scores-degrades-to-float", "C18", "cvss/cvss3.py",
       "        return float(self.base_score), float(self.temporal_score), float(self.environmental_score)",
       "        self.base_score = float(self.base_score)\n        return float(self.base_score), float(self.temporal_score), float(self.environmental_score)",
       "after scores(), severities() compares a float with Decimal thresholds")
mutant("c18-clean-vector-memo-ignores-prefix", "C18", "cvss/cvss4.py",
       """        if output_prefix:
            prefix = "CVSS:4.0/"
        else:
            prefix = ""
        return prefix + "/".join(vector)""",
       """        if output_prefix:
            prefix = "CVSS:4.0/"
        else:
            prefix = ""
        if getattr(self, "_clean", None) is None:
            self._clean = prefix + "/".join(vector)
        return self._clean""",
       "first call decides the prefix for all later calls")
mutant("c18-json-built-in-module-level-dict", "C18", edits=[
    ("cvss/cvss4.py",
     """        data = OrderedDict(
            [
                ("version", "4"),
                ("vectorString", self.vector),
            ]
        )
""",
     """        data = _SCRATCH
        data.clear()
        data.update([("version", "4"), ("vectorString", self.vector)])
"""),
    ("cvss/cvss4.py", "def final_rounding(x):", "_SCRATCH = OrderedDict()\n\n\ndef final_rounding(x):")],
    note="as_json(sort=False) returns one module-level dict by reference")
mutant("c18-eq-caches-other", "C18", "cvss/cvss2.py",
       """        if isinstance(o, CVSS2):
            return self.clean_vector() == o.clean_vector()""",
       """        if isinstance(o, CVSS2):
            if "_eq" not in self.__dict__:
                self._eq = o.clean_vector()
            return self.clean_vector() == self._eq""",
       "== remembers the first object it was compared with")

# ------------------------------------------------------------------------------ C19 (hidden state / ambient dependence)
mutant("c19-env-score-memo-ignores-minor-version", "C19", edits=[
    ("cvss/cvss3.py", "def round_up(value):", "_ENV_MEMO = {}\n\n\ndef round_up(value):"),
    ("cvss/cvss3.py",
     """        self.compute_modified_isc_base()
        if self.minor_version == 0:""",
     """        _key = tuple(sorted(self.metrics.items()))
        if _key in _ENV_MEMO:
            self.environmental_score = _ENV_MEMO[_key]
            return
        self.compute_modified_isc_base()
        if self.minor_version == 0:"""),
    ("cvss/cvss3.py",
     """            self.environmental_score = round_up(
                modified * self.get_value("E") * self.get_value("RL") * self.get_value("RC")
            )
""",
     """            self.environmental_score = round_up(
                modified * self.get_value("E") * self.get_value("RL") * self.get_value("RC")
            )
        _ENV_MEMO[_key] = self.environmental_score
""")],
    note="process-wide memo keyed by the metrics without the minor version: needs the same body under 3.0 and 3.1 in one history")
mutant("c19-inherited-value-written-into-table", "C19", "cvss/cvss3.py",
       """            if abbreviation not in self.metrics or self.metrics[abbreviation] == "X":
                self.metrics[abbreviation] = self.metrics[abbreviation[1:]]""",
       """            if abbreviation not in self.metrics or self.metrics[abbreviation] == "X":
                self.metrics[abbreviation] = self.metrics[abbreviation[1:]]
                METRICS_VALUES[abbreviation]["X"] = METRICS_VALUES[abbreviation[1:]][self.metrics[abbreviation[1:]]]""",
       "constant table mutated as a side effect of a construction")
mutant("c19-round-up-sets-ambient-rounding", "C19", "cvss/cvss3.py",
       '    return value.quantize(D("0.1"), rounding=ROUND_CEILING)',
       '    __import__("decimal").getcontext().rounding = ROUND_CEILING\n    return value.quantize(D("0.1"))',
       "the caller's decimal context is changed")
mutant("c19-v2-rounding-uses-ambient-context", "C19", "cvss/cvss2.py",
       '    return value.quantize(D("0.1"), rounding=ROUND_HALF_UP)',
       '    return value.quantize(D("0.1")) if value * 100 % 10 != 5 else value.quantize(D("0.1"), rounding=ROUND_HALF_UP)',
       "non-tie values rounded with the ambient rounding mode (same result under the default context)")
mutant("c19-scratch-global-read-by-get_value", "C19", edits=[
    ("cvss/cvss3.py", "def round_up(value):", "_CURRENT = None\n\n\ndef round_up(value):"),
    ("cvss/cvss3.py",
     '''        string_value = self.metrics.get(abbreviation, "X")
        if (abbreviation == "PR" and self.scope == "C") or (''',
     '''        global _CURRENT
        _CURRENT = self
        string_value = _CURRENT.metrics.get(abbreviation, "X")
        if (abbreviation == "PR" and self.scope == "C") or (''')],
    note="sequentially invisible; fails only when another thread runs between the two lines")
mutant("c19-module-memo-cleared-by-constructor", "C19", edits=[
    ("cvss/cvss2.py", "def round_to_1_decimal(value):", "_MEMO = {}\n\n\ndef round_to_1_decimal(value):"),
    ("cvss/cvss2.py",
     "        self.parse_vector()\n        self.check_mandatory()\n        self.compute_base_score()",
     "        _MEMO.clear()\n        self.parse_vector()\n        self.check_mandatory()\n        self.compute_base_score()"),
    ("cvss/cvss2.py",
     '''        string_value = self.metrics.get(abbreviation, "ND")
        result = METRICS_VALUES[abbreviation][string_value]
        return result''',
     '''        if abbreviation not in _MEMO:
            _MEMO[abbreviation] = self.metrics.get(abbreviation, "ND")
        string_value = _MEMO[abbreviation]
        result = METRICS_VALUES[abbreviation][string_value]
        return result''')],
    note="per-construction memo in a module-level dict: sequentially invisible, wrong under interleaved constructions")
mutant("c19-stray-print-in-parser", "C19", "cvss/parser.py",
       "        except (CVSSError, KeyError):\n            pass",
       "        except (CVSSError, KeyError):\n            print('skipping', match)",
       "library writes to stdout outside the CLI")
mutant("c19-warnings-filter-in-constructor", "C19", "cvss/cvss4.py",
       "        self.vector = vector\n        self.metrics = {}\n        self.missing_metrics = []\n\n        self.base_score = None\n        self.severity = None",
       "        __import__('warnings').simplefilter('ignore')\n        self.vector = vector\n        self.metrics = {}\n        self.missing_metrics = []\n\n        self.base_score = None\n        self.severity = None")
mutant("c19-sys-path-insert-at-import", "C19", "cvss/__init__.py",
       '__version__ = "3.4"', '__version__ = "3.4"\n__import__("sys").path.insert(0, __import__("os").path.dirname(__file__))',
       "import-time change of sys.path")
mutant("c19-logging-basicconfig-at-import", "C19", "cvss/parser.py",
       "import re\n", "import logging\nimport re\n\nlogging.basicConfig(level=logging.DEBUG)\n",
       "import-time configuration of the root logger (invisible to a post-import snapshot)")
mutant("c19-builtins-compat-shim", "C19", "cvss/cvss2.py",
       "def round_to_1_decimal(value):",
       "try:\n    unicode\nexcept NameError:\n    __import__('builtins').unicode = str\n\n\ndef round_to_1_decimal(value):",
       "Python 2 compatibility shim written into the builtins namespace of the whole process")
mutant("c19-constructor-reseeds-global-random", "C19", "cvss/cvss4.py",
       "        self.vector = vector\n        self.metrics = {}\n        self.missing_metrics = []\n\n        self.base_score = None\n        self.severity = None",
       "        __import__('random').seed(len(vector))\n        self.vector = vector\n        self.metrics = {}\n        self.missing_metrics = []\n\n        self.base_score = None\n        self.severity = None",
       "the caller's global random generator is re-seeded by a constructor")
mutant("c19-v2-memo-torn-by-race-shows-in-next-call", "C19", edits=[
    ("cvss/cvss2.py", "def round_to_1_decimal(value):",
     "_memo = {}\n_scratch = None\n\n\ndef round_to_1_decimal(value):"),
    ("cvss/cvss2.py",
     "        self.parse_vector()\n        self.check_mandatory()\n        self.compute_base_score()",
     "        global _memo, _scratch\n        hit = _memo.get(vector)\n        if hit is not None:\n            self.metrics = dict(hit)\n        else:\n            self.parse_vector()\n            _scratch = dict(self.metrics)\n            _memo = {vector: _scratch}\n        self.check_mandatory()\n        self.compute_base_score()"),
], note="one-entry memo written in two steps through a module-level scratch name: a construction pre-empted between the two steps by another complete construction returns the right object, and so does the other; the memo is left as (W, metrics of X) and only the NEXT construction of W is wrong")
mutant("c19-prec-lowered-at-import", "C19", "cvss/cvss3.py",
       "def round_up(value):", "__import__('decimal').getcontext().prec = 12\n\n\ndef round_up(value):",
       "import-time change of the importing thread's decimal context")
mutant("c19-text-order-by-set-again", "C19", "cvss/parser.py",
       "    return cvsss\n", "    return list(set(cvsss))\n", "hash-seed dependent list order (needs PYTHONHASHSEED != 0 and >= 2 vectors)")
mutant("c19-clean-vector-cache-keyed-by-id", "C19", edits=[
    ("cvss/cvss3.py", "def round_up(value):", "_CLEAN = {}\n\n\ndef round_up(value):"),
    ("cvss/cvss3.py",
     """        vector = []
        for metric in METRICS_ABBREVIATIONS:
            if metric in self.original_metrics:
                value = self.original_metrics[metric]
                if value != "X":
                    vector.append("{0}:{1}".format(metric, value))
        if output_prefix:
            prefix = "CVSS:3.{0}/".format(self.minor_version)""",
     """        if (id(self), output_prefix) in _CLEAN:
            return _CLEAN[(id(self), output_prefix)]
        vector = []
        for metric in METRICS_ABBREVIATIONS:
            if metric in self.original_metrics:
                value = self.original_metrics[metric]
                if value != "X":
                    vector.append("{0}:{1}".format(metric, value))
        if output_prefix:
            prefix = "CVSS:3.{0}/".format(self.minor_version)"""),
    ("cvss/cvss3.py",
     '''        else:
            prefix = ""
        return prefix + "/".join(vector)

    def severities(self):''',
     '''        else:
            prefix = ""
        _CLEAN[(id(self), output_prefix)] = prefix + "/".join(vector)
        return prefix + "/".join(vector)

    def severities(self):''')],
    note="cache keyed by id(self): stale entries are served to later objects that reuse the address (history-dependent)")
mutant("c19-class-level-scratch-scope", "C19", "cvss/cvss3.py",
       """        self.scope = self.metrics["S"]
        self.modified_scope = self.metrics.get("MS", None)
        if self.modified_scope in [None, "X"]:
            self.modified_scope = self.scope""",
       """        CVSS3._scope = self.metrics["S"]
        self.modified_scope = self.metrics.get("MS", None)
        self.scope = CVSS3._scope
        if self.modified_scope in [None, "X"]:
            self.modified_scope = self.scope""",
       "class attribute used as scratch between two lines: interleaving only")
mutant("c19-v4-lookup-table-pop", "C19", "cvss/cvss4.py",
       "        value = CVSS_LOOKUP_GLOBAL[macroVector]\n",
       "        value = CVSS_LOOKUP_GLOBAL[macroVector]\n        if macroVector == '212221':\n            CVSS_LOOKUP_GLOBAL['212221'] = 0.0\n",
       "one rare macrovector (lowest) zeroes its own table entry after first use (0.1 -> 0.0 afterwards)")

# ------------------------------------------------------------------------------ C20 (interpreter portability)
mutant("c20-fstring-in-interactive", "C20", "cvss/interactive.py",
       '        raise ValueError("Unknown version: {0}".format(version))',
       '        raise ValueError(f"Unknown version: {version}")',
       "syntax newer than Python 2.7")
mutant("c20-walrus-in-parser", "C20", "cvss/parser.py",
       "            if cvss not in seen:\n                seen.add(cvss)\n                cvsss.append(cvss)",
       "            if (c := cvss) not in seen:\n                seen.add(c)\n                cvsss.append(c)",
       "syntax newer than Python 3.7")
mutant("c20-removeprefix-in-cvss3", "C20", "cvss/cvss3.py",
       '            fields = self.vector.split("/")[1:]',
       '            fields = self.vector.removeprefix("CVSS:3.%d/" % self.minor_version).split("/")',
       "str.removeprefix needs Python 3.9")
mutant("c20-math-prod-in-compute-esc", "C20", "cvss/cvss3.py",
       """        self.esc = (
            D("8.22")
            * self.get_value("AV")
            * self.get_value("AC")
            * self.get_value("PR")
            * self.get_value("UI")
        )""",
       """        self.esc = D("8.22") * __import__("math").prod(self.get_value(m) for m in ("AV", "AC", "PR", "UI"))""",
       "math.prod needs Python 3.8")
mutant("c20-integer-division-step", "C20", "cvss/cvss4.py",
       "        step = 0.1\n", "        step = 1 / 10\n", "Python 2.7: 1 / 10 == 0 without the division import")
mutant("c20-plain-dict-constants", "C20", "cvss/constants2.py",
       """METRICS_ABBREVIATIONS = OrderedDict(
    [
        ("AV", "Access Vector"),""",
       """METRICS_ABBREVIATIONS = dict(
    [
        ("AV", "Access Vector"),""",
       "Python 2.7: clean-vector / question order becomes arbitrary")
mutant("c20-union-annotation", "C20", "cvss/cvss2.py",
       "def round_to_1_decimal(value):", "def round_to_1_decimal(value: D | None):", "PEP 604 annotation evaluated at def time: < 3.10")
mutant("c20-dict-union-operator", "C20", "cvss/cvss4.py",
       '        PR_levels = {"N": 0.0, "L": 0.1, "H": 0.2}',
       '        PR_levels = {"N": 0.0} | {"L": 0.1, "H": 0.2}', "dict | dict needs Python 3.9")
mutant("c20-print-to-file-kw-bytes-py2", "C20", "cvss/cvss_calculator.py",
       '            print("Cleaned vector:       ", cvss_vector.clean_vector())',
       '            print("Cleaned vector:       ", cvss_vector.clean_vector().encode("ascii").decode("ascii") if str is not bytes else repr(cvss_vector.clean_vector()))',
       "Python 2 branch prints the repr (u'...')")
mutant("c17-all-flag-not-passed-on", "C17", "cvss/cvss_calculator.py",
       "            vector_string = ask_interactively(version, args.all, args.no_colors)",
       "            vector_string = ask_interactively(version, args.all and not args.json, args.no_colors)",
       "-a is ignored when -j is given as well (clause g: the dialogue must ask all metrics)")
mutant("c19-bounded-cache-goes-stale-when-full", "C19", edits=[
    ("cvss/cvss2.py", "def round_to_1_decimal(value):", "_BASE_CACHE = {}\n\n\ndef round_to_1_decimal(value):"),
    ("cvss/cvss2.py",
     "        self.base_score = max(D(\"0.0\"), self.base_score_equation())",
     """        key = tuple(self.metrics.get(m) for m in METRICS_MANDATORY)
        if len(_BASE_CACHE) >= 100:
            # cache is full: recycle the slot of an arbitrary entry (bug: the old value stays)
            _BASE_CACHE[key] = _BASE_CACHE.pop(next(iter(_BASE_CACHE)))
        if key not in _BASE_CACHE:
            _BASE_CACHE[key] = max(D("0.0"), self.base_score_equation())
        self.base_score = _BASE_CACHE[key]""")],
    note="needs a history of >= 100 distinct CVSS2 base assignments before the probe")
mutant("c17-main-returns-status-on-error", "C17", "cvss/cvss_calculator.py",
       "        except CVSSError as e:\n            print(e)\n",
       "        except CVSSError as e:\n            print(e)\n            return 1\n",
       "main() returns 1 for an invalid vector: harmless for `python -m`, exit status 1 for the installed console script (sys.exit(main()))")
mutant("c19-os-write-to-fd2", "C19", "cvss/cvss2.py",
       "            raise CVSS2MalformedError('Malformed CVSS2 vector, trailing \"/\"')",
       "            __import__('os').write(2, b'warning: trailing slash\\n')\n            raise CVSS2MalformedError('Malformed CVSS2 vector, trailing \"/\"')",
       "a diagnostic written with os.write(2, ...) bypasses sys.stderr")

# ------------------------------------------------------------------------------ benign changes (negative controls)
# Behaviour-preserving refactorings / cosmetic changes under which every property still holds: NO check may alarm.
mutant("benign-prompt-reworded", "clean", "cvss/interactive.py",
       """            print(METRICS_ABBREVIATIONS[metric] + ":", end=" ")
            print("/".join(values), end=" ")
            input_value""",
       """            print("Your choice for " + METRICS_ABBREVIATIONS[metric] + " [" + ", ".join(values) + "]")
            print("> ", end="")
            input_value""",
       "the question is worded and punctuated differently")
mutant("benign-report-labels-reworded", "clean", edits=[
    ("cvss/cvss_calculator.py", 'enumerate(["Base Score", "Temporal Score", "Environmental Score"])',
     'enumerate(["Base score", "Temporal score", "Environmental score"])'),
    ("cvss/cvss_calculator.py", 'print("Cleaned vector:       ", cvss_vector.clean_vector())', 'print("Clean vector  =       ", cvss_vector.clean_vector())'),
    ("cvss/cvss_calculator.py", 'print("Red Hat vector:       ", cvss_vector.rh_vector())', 'print("RedHat vector =       ", cvss_vector.rh_vector())')],
    note="report labels re-cased / re-punctuated")
mutant("benign-report-labels-translated", "clean", edits=[
    ("cvss/cvss_calculator.py", 'enumerate(["Base Score", "Temporal Score", "Environmental Score"])',
     'enumerate(["Basis", "Zeitlich", "Umgebung"])'),
    ("cvss/cvss_calculator.py", 'print("Cleaned vector:       ", cvss_vector.clean_vector())', 'print("Bereinigt:            ", cvss_vector.clean_vector())'),
    ("cvss/cvss_calculator.py", 'print("Red Hat vector:       ", cvss_vector.rh_vector())', 'print("RH:                   ", cvss_vector.rh_vector())')],
    note="labels the oracle does not know at all: it must fall back to the values")
mutant("benign-json-on-label-line", "clean", "cvss/cvss_calculator.py",
       'print("CVSS vector in JSON:", json_output, sep="\\n")', 'print("CVSS vector in JSON: " + json_output)',
       "the JSON document starts on the line of its label")
mutant("benign-v2-ratings-printed", "clean", "cvss/cvss_calculator.py",
       "                        score = (scores[i],)",
       '                        score = scores[i], "({0})".format(cvss_vector.severities()[i])',
       "v2 score lines carry the library's rating too")
mutant("benign-as-json-correct-cache", "clean", edits=[
    ("cvss/cvss4.py", """        # OrderedDict, so that the key order does not depend on the Python version
        data = OrderedDict(
            [
                ("version", "4"),""",
     """        _cache = self.__dict__.setdefault("_json_cache", {})
        if sort in _cache:
            return OrderedDict(_cache[sort])

        # OrderedDict, so that the key order does not depend on the Python version
        data = OrderedDict(
            [
                ("version", "4"),"""),
    ("cvss/cvss4.py", """        if sort:
            data = OrderedDict(sorted(data.items()))
        return data

    def __hash__(self):
        return hash(self.clean_vector())

    def __eq__(self, o):
        if isinstance(o, CVSS4):""",
     """        if sort:
            data = OrderedDict(sorted(data.items()))
        _cache[sort] = data
        return OrderedDict(data)

    def __hash__(self):
        return hash(self.clean_vector())

    def __eq__(self, o):
        if isinstance(o, CVSS4):""")],
    note="a CORRECT per-instance cache: a copy is handed out every time")
mutant("benign-correct-module-level-memo", "clean", edits=[
    ("cvss/cvss2.py", "def round_to_1_decimal(value):", "_BASE_CACHE = {}\n\n\ndef round_to_1_decimal(value):"),
    ("cvss/cvss2.py",
     "        self.base_score = max(D(\"0.0\"), self.base_score_equation())",
     """        key = tuple(self.metrics.get(m) for m in METRICS_MANDATORY)
        score = _BASE_CACHE.get(key)
        if score is None:
            score = _BASE_CACHE[key] = max(D("0.0"), self.base_score_equation())
        self.base_score = score""")],
    note="a CORRECT process-wide memo (complete key, single read of the slot)")
mutant("benign-call-counter", "clean", edits=[
    ("cvss/cvss3.py", "def round_up(value):", "_constructed = 0\nSTATS = {\"constructed\": 0}\n\n\ndef round_up(value):"),
    ("cvss/cvss3.py", "        self.vector = vector\n        self.minor_version = None",
     "        global _constructed\n        _constructed += 1\n        self.vector = vector\n        self.minor_version = None")],
    note="module-level statistics counter: process-global state that is not a constant table")
mutant("benign-parser-ordered-dict", "clean", "cvss/parser.py",
       "            if cvss not in seen:\n                seen.add(cvss)\n                cvsss.append(cvss)",
       "            if cvss not in seen:\n                seen.add(cvss)\n                cvsss = cvsss + [cvss]",
       "same result, list rebuilt instead of appended")
mutant("benign-builder-reads-stdin-directly", "clean", edits=[
    ("cvss/interactive.py", """try:
    # noinspection PyUnresolvedReferences
    string_input = raw_input
except NameError:
    string_input = input
""", """import sys


def string_input():
    sys.stdout.flush()
    line = sys.stdin.readline()
    if not line:
        raise EOFError("EOF when reading a line")
    if not isinstance(line, type(u"")):
        line = line.decode("utf-8", "replace")
    return line[:-1] if line.endswith("\\n") else line
""")],
    note="a CORRECT replacement of input() (keeps a partial last line intact)")
mutant("benign-errors-to-stderr", "clean", edits=[
    ("cvss/cvss_calculator.py", "import argparse\nimport json\n", "import argparse\nimport json\nimport sys\n"),
    ("cvss/cvss_calculator.py", "        except CVSSError as e:\n            print(e)\n", "        except CVSSError as e:\n            print(e, file=sys.stderr)\n")],
    note="the library's error message goes to stderr (still printed, still exit status 0)")
mutant("benign-localcontext-in-round-up", "clean", "cvss/cvss3.py",
       '    return value.quantize(D("0.1"), rounding=ROUND_CEILING)',
       '    import decimal\n\n    with decimal.localcontext() as ctx:\n        ctx.rounding = ROUND_CEILING\n        return value.quantize(D("0.1"))',
       "the context is changed only inside a localcontext() block and restored")
mutant("benign-main-returns-zero", "clean", "cvss/cvss_calculator.py",
       "    except (KeyboardInterrupt, EOFError):\n        print()\n", "    except (KeyboardInterrupt, EOFError):\n        print()\n    return 0\n",
       "main() returns 0 explicitly")
mutant("benign-clean-vector-correct-memo", "clean", edits=[
    ("cvss/cvss3.py", """        vector = []
        for metric in METRICS_ABBREVIATIONS:
            if metric in self.original_metrics:
                value = self.original_metrics[metric]
                if value != "X":
                    vector.append("{0}:{1}".format(metric, value))
        if output_prefix:
            prefix = "CVSS:3.{0}/".format(self.minor_version)""",
     """        memo = self.__dict__.setdefault("_clean", {})
        if output_prefix in memo:
            return memo[output_prefix]
        vector = []
        for metric in METRICS_ABBREVIATIONS:
            if metric in self.original_metrics:
                value = self.original_metrics[metric]
                if value != "X":
                    vector.append("{0}:{1}".format(metric, value))
        if output_prefix:
            prefix = "CVSS:3.{0}/".format(self.minor_version)"""),
    ("cvss/cvss3.py", '''        else:
            prefix = ""
        return prefix + "/".join(vector)

    def severities(self):''', '''        else:
            prefix = ""
        memo[output_prefix] = prefix + "/".join(vector)
        return memo[output_prefix]

    def severities(self):''')],
    note="a CORRECT per-instance memo keyed by output_prefix")

# ------------------------------------------------------------------------------ C19: lock misuse (needs the lock seam)
mutant("c19-lock-order-inversion-deadlock", "C19", edits=[
    ("cvss/cvss3.py", "def round_up(value):",
     "import threading\n\n_TABLE_LOCK = threading.Lock()\n_JSON_LOCK = threading.Lock()\n\n\ndef round_up(value):"),
    ("cvss/cvss3.py", "        self.compute_isc_base()\n        self.compute_isc()\n        self.compute_esc()\n",
     "        with _TABLE_LOCK:\n            with _JSON_LOCK:\n                self.compute_isc_base()\n        self.compute_isc()\n        self.compute_esc()\n"),
    ("cvss/cvss3.py", "        base_severity, temporal_severity, environmental_severity = self.severities()\n",
     "        with _JSON_LOCK:\n            with _TABLE_LOCK:\n                base_severity, temporal_severity, environmental_severity = self.severities()\n")],
    note="two module-level locks taken in opposite order by the constructor and by as_json(): dead-lock under one particular interleaving only")
mutant("benign-locked-memo", "clean", edits=[
    ("cvss/cvss3.py", "def round_up(value):",
     "import threading\n\n_POW_LOCK = threading.Lock()\n_POW = {}\n\n\ndef _power(base, exp):\n    with _POW_LOCK:\n        r = _POW.get((base, exp))\n    if r is None:\n        r = base ** exp\n        with _POW_LOCK:\n            if len(_POW) > 512:\n                _POW.clear()\n            _POW[(base, exp)] = r\n    return r\n\n\ndef round_up(value):"),
    ("cvss/cvss3.py", """            self.isc = D("7.52") * (self.isc_base - D("0.029")) - D("3.25") * (
                self.isc_base - D("0.02")
            ) ** D("15")""",
     """            self.isc = D("7.52") * (self.isc_base - D("0.029")) - D("3.25") * _power(
                self.isc_base - D("0.02"), D("15")
            )""")],
    note="a CORRECT lock-protected process-wide memo (value read into a local under the lock)")

# ------------------------------------------------------------------------------ C16: state that survives between builder calls
mutant("c16-questions-memo-extended-in-place", "C16", edits=[
    ("cvss/interactive.py", "def color(text):", "_QUESTIONS = {}\n\n\ndef color(text):"),
    ("cvss/interactive.py",
     "    if all_metrics:\n        metrics = METRICS_ABBREVIATIONS.keys()\n    else:\n        metrics = METRICS_MANDATORY\n",
     "    if int(version) not in _QUESTIONS:\n        _QUESTIONS[int(version)] = list(METRICS_MANDATORY)\n    metrics = _QUESTIONS[int(version)]\n    if all_metrics:\n        metrics += [m for m in METRICS_ABBREVIATIONS.keys() if m not in metrics]\n")],
    note="a single call in a fresh process is always right; after an all-metrics call, a mandatory-only call of the same major version asks all metrics")

# ------------------------------------------------------------------------------ C17: terminal-only behaviour (pseudo-terminal environment)
mutant("c17-tty-only-pager-drops-rating", "C17", edits=[
    ("cvss/cvss_calculator.py", "import json\n", "import json\nimport sys\n"),
    ("cvss/cvss_calculator.py",
     "                        score = scores[i], \"({0})\".format(severities[i])\n",
     "                        score = scores[i], \"({0})\".format(severities[i])\n"
     "                        if sys.stdout.isatty() and args.vector is None and i == 1:\n"
     "                            score = (scores[i],)  # keep the terminal report short\n")],
    note="only when stdout is a terminal and the vector was entered interactively: the Temporal rating is not printed; invisible on pipes and in-process")
mutant("benign-tty-only-presentation", "clean", edits=[
    ("cvss/cvss_calculator.py", "import json\n", "import json\nimport sys\n"),
    ("cvss/cvss_calculator.py",
     "            print(\"Cleaned vector:       \", cvss_vector.clean_vector())\n",
     "            if sys.stdout.isatty():\n                print(\"-\" * 40)\n"
     "            print(\"Cleaned vector:       \", cvss_vector.clean_vector())\n")],
    note="a separator line printed on terminals only: presentation, the reported values are unchanged")

# ------------------------------------------------------------------------------ C19: sticky flags of the caller's decimal context
mutant("c19-v3-round-up-consults-sticky-flag", "C19", edits=[
    ("cvss/cvss3.py", "from decimal import ROUND_CEILING\n", "from decimal import ROUND_CEILING, ROUND_HALF_UP, Clamped, getcontext\n"),
    ("cvss/cvss3.py",
     "    return value.quantize(D(\"0.1\"), rounding=ROUND_CEILING)\n",
     "    if getcontext().flags[Clamped]:\n"
     "        # the operand was clamped somewhere: its last digits are artefacts, do not round them up\n"
     "        return value.quantize(D(\"0.1\"), rounding=ROUND_HALF_UP)\n"
     "    return value.quantize(D(\"0.1\"), rounding=ROUND_CEILING)\n")],
    note="reads a sticky signal flag of the ambient context, which the caller may have raised long before (the library itself never raises it): v3 scores differ only when the flag is already set")

# ------------------------------------------------------------------------------ C16/C17: a loop that prints and never reads
mutant("c16-refused-answer-reprinted-forever", "C16", "cvss/interactive.py",
       "            if input_value in values_by_upper:\n"
       "                vector.append(metric + \":\" + values_by_upper[input_value])\n"
       "                break\n",
       "            while input_value not in values_by_upper:\n"
       "                print(\"Please answer with one of \" + \"/\".join(values))\n"
       "            vector.append(metric + \":\" + values_by_upper[input_value])\n"
       "            break\n",
       "after an illegal answer the hint is printed in a loop that never reads again: no read cap can see it, only an output cap")

# ------------------------------------------------------------------------------ C17: a spin without any I/O for a rare invalid vector
mutant("c17-v3-parser-spins-on-double-slash", "C17", "cvss/cvss3.py",
       "        if self.vector.endswith(\"/\"):\n            raise CVSS3MalformedError('Malformed CVSS3 vector, trailing \"/\"')\n",
       "        if self.vector.endswith(\"/\"):\n            raise CVSS3MalformedError('Malformed CVSS3 vector, trailing \"/\"')\n"
       "        fields_text = self.vector\n"
       "        while \"//\" in fields_text:\n"
       "            fields_text = fields_text.replace(\"//\", \"//\")  # meant: collapse to one separator for the error message\n",
       "CVSS3 never returns for a string with an empty field (`//`): no read, no write, nothing a stream cap can see; only the wall limit of an isolated run")
